//! Beyond the listed properties: replay of spec/StatsUnsplit.tla (ess_from_chainstats,
//! MultiChainTracker::max_rhat) -- deviations are reported as EXTRA findings, never as
//! violations of a listed property.
use crate::util::*;
use mini_mcmc::stats::{ess_from_chainstats, ChainStats, ChainTracker, MultiChainTracker};
use ndarray::Array3;
use serde_json::{json, Value};

pub fn unsplit(args: &[String]) {
    let cases = read_ndjson(&args[0]);
    let (mut evals, mut checked_ess, mut checked_rhat) = (0u64, 0u64, 0u64);
    let mut bad: Vec<Value> = vec![];
    for c in &cases {
        let a: Vec<Vec<i64>> = c["a"].as_array().unwrap().iter().map(|r| r.as_array().unwrap().iter().map(|x| x.as_i64().unwrap()).collect()).collect();
        let (nc, n) = (a.len(), a[0].len());
        evals += 1;
        let r = catch(|| {
            let mut trackers: Vec<ChainTracker> = a.iter().map(|row| ChainTracker::new(1, &[row[0] as f32])).collect();
            let mut multi = MultiChainTracker::new(nc, 1);
            for t in 0..n {
                for (ch, tr) in trackers.iter_mut().enumerate() {
                    tr.step(&[a[ch][t] as f32]).unwrap();
                }
                let flat: Vec<f32> = (0..nc).map(|ch| a[ch][t] as f32).collect();
                multi.step(&flat).unwrap();
            }
            let cs: Vec<ChainStats> = trackers.iter().map(|t| t.stats()).collect();
            let refs: Vec<&ChainStats> = cs.iter().collect();
            let sample = Array3::<f32>::from_shape_fn((nc, n, 1), |(ch, t, _)| a[ch][t] as f32);
            let ess = ess_from_chainstats(sample.view(), &refs)[0] as f64;
            let rh = multi.rhat().map(|r| r[0] as f64).map_err(|e| e.to_string());
            let mx = multi.max_rhat().map(|r| r as f64).map_err(|e| e.to_string());
            (ess, rh, mx)
        });
        let (ess, rh, mx) = match r {
            Ok(v) => v,
            Err(e) => {
                if c["def"].as_bool().unwrap() && bad.len() < 20 {
                    bad.push(json!({"a": c["a"], "why": format!("panic: {e}")}));
                }
                continue;
            }
        };
        if !c["def"].as_bool().unwrap() {
            continue;
        }
        let (mn, du, out) = (c["mn"].as_f64().unwrap(), c["du"].as_f64().unwrap(), c["out"].as_f64().unwrap());
        let den = 2.0 * out - du;
        if !c["frag"].as_bool().unwrap() && den != 0.0 {
            let e = mn * du / den;
            checked_ess += 1;
            if (ess - e).abs() > 2e-3 * e.abs() + 1e-6 && bad.len() < 20 {
                bad.push(json!({"a": c["a"], "why": format!("ess_from_chainstats = {ess}, StatsUnsplit gives {e}")}));
            }
        }
        let e2 = c["rn"].as_f64().unwrap() / c["rd"].as_f64().unwrap();
        match (rh, mx) {
            (Ok(r1), Ok(m1)) => {
                checked_rhat += 1;
                if (r1 * r1 - e2).abs() > 1e-4 * e2.abs() + 1e-6 && bad.len() < 20 {
                    bad.push(json!({"a": c["a"], "why": format!("MultiChainTracker::rhat^2 = {}, classical R-hat^2 = {e2}", r1 * r1)}));
                }
                if m1.to_bits() != r1.to_bits() && bad.len() < 20 {
                    bad.push(json!({"a": c["a"], "why": format!("max_rhat = {m1} but the only parameter has rhat = {r1}")}));
                }
            }
            (a1, b1) => {
                if bad.len() < 20 {
                    bad.push(json!({"a": c["a"], "why": format!("rhat / max_rhat failed: {a1:?} {b1:?}")}));
                }
            }
        }
    }
    println!("{}", json!({"summary": true, "cases": cases.len(), "evaluations": evals, "ess_checked": checked_ess, "rhat_checked": checked_rhat, "bad": bad}));
}
