//! C10 — progress mode.  Everything that may hang or panic runs in a child process under the
//! parent's watchdog:
//!   conform c10 schedule <json>   counting chains whose last step waits for a chosen reporter
//!                                 iteration (completion schedule from spec/Gen_Progress.tla);
//!                                 prints draws/diagnostics verdict and the protocol event trace
//!   conform c10 config <json>     one real sampler configuration: run_progress vs run
//!   conform c10 fault <json>      run_chain_progress with the receiver dropped before/during/after
use crate::util::*;
use burn::backend::{Autodiff, NdArray};
use mini_mcmc::core::{run_chain, run_chain_progress, ChainRunner, HasChains, MarkovChain};
use mini_mcmc::distributions::{Conditional, DiffableGaussian2D, Gaussian2D, IsotropicGaussian, Proposal, Target};
use mini_mcmc::gibbs::GibbsSampler;
use mini_mcmc::hmc::HMC;
use mini_mcmc::metropolis_hastings::MetropolisHastings;
use mini_mcmc::nuts::NUTS;
use mini_mcmc::stats::RunStats;
use ndarray::{arr1, arr2, Array3};
use serde_json::{json, Value};
use std::sync::atomic::{AtomicU64, Ordering};
use std::sync::{Arc, Mutex};

static REPORTER_ITER: AtomicU64 = AtomicU64::new(0);
thread_local! { static CHAIN_ID: std::cell::Cell<u64> = const { std::cell::Cell::new(0) }; }

fn value_of(id: usize, t: usize) -> f64 {
    // deterministic, non-constant, small: diagnostics stay finite
    let mut s = (id as u64) << 32 | t as u64;
    (splitmix(&mut s) % 1000) as f64 / 100.0
}

struct SchedChain {
    id: usize,
    steps: usize,
    total: usize,
    wait_iter: u64,
    state: Vec<f64>,
    events: Arc<Mutex<Vec<Value>>>,
}
impl MarkovChain<f64> for SchedChain {
    fn step(&mut self) -> &Vec<f64> {
        self.steps += 1;
        CHAIN_ID.with(|c| c.set(self.id as u64 + 1));
        if self.steps == self.total {
            // hold the chain back until the reporter has started the chosen iteration
            let t0 = std::time::Instant::now();
            while REPORTER_ITER.load(Ordering::SeqCst) < self.wait_iter && t0.elapsed().as_secs() < 20 {
                std::thread::sleep(std::time::Duration::from_millis(3));
            }
            self.events.lock().unwrap().push(json!({"e": "last", "c": self.id + 1}));
        }
        self.state = vec![value_of(self.id, self.steps), self.id as f64 + 0.5 * value_of(self.id + 77, self.steps)];
        &self.state
    }
    fn current_state(&self) -> &Vec<f64> {
        &self.state
    }
}
struct SchedSampler {
    chains: Vec<SchedChain>,
}
impl HasChains<f64> for SchedSampler {
    type Chain = SchedChain;
    fn chains_mut(&mut self) -> &mut Vec<Self::Chain> {
        &mut self.chains
    }
}

fn same_stats(a: &RunStats, b: &RunStats) -> bool {
    let f = |x: f32, y: f32| x == y || (x.is_nan() && y.is_nan());
    let g = |p: &mini_mcmc::stats::BasicStats, q: &mini_mcmc::stats::BasicStats| f(p.min, q.min) && f(p.max, q.max) && f(p.mean, q.mean) && f(p.std, q.std) && f(p.median, q.median);
    g(&a.ess, &b.ess) && g(&a.rhat, &b.rhat)
}

pub fn schedule(args: &[String]) {
    let sc: Value = serde_json::from_str(&args[0]).unwrap();
    let waits: Vec<u64> = sc["waits"].as_array().unwrap().iter().map(|x| x.as_u64().unwrap()).collect();
    let (nc, nd) = (sc["nc"].as_u64().unwrap() as usize, sc["nd"].as_u64().unwrap() as usize);
    let n = waits.len();
    let total = nc + nd;
    let events: Arc<Mutex<Vec<Value>>> = Default::default();
    let ev2 = events.clone();
    mini_mcmc::verif::set_global(Some(Arc::new(move |name: &str, a: &[u64]| {
        let mut e = ev2.lock().unwrap();
        match name {
            "reporter_iter" => {
                e.push(json!({"e": "iter", "k": a[0], "fin": a[1]}));
                REPORTER_ITER.store(a[0] + 1, Ordering::SeqCst); // iteration a[0] has started
            }
            "reporter_book" => e.push(json!({"e": "book", "k": a[0], "fin": a[1], "alen": a[2], "nxt": a[3]})),
            "worker_sent" => {
                if a[0] == a[1] {
                    e.push(json!({"e": "sent", "c": CHAIN_ID.with(|c| c.get())}));
                }
            }
            _ => {}
        }
    })));
    events.lock().unwrap().push(json!({"e": "start", "n": n, "total": total}));
    let mut s = SchedSampler { chains: (0..n).map(|id| SchedChain { id, steps: 0, total, wait_iter: waits[id] + 1, state: vec![0.0, 0.0], events: events.clone() }).collect() };
    let r = catch(|| s.run_progress(nc, nd).map_err(|e| e.to_string()));
    mini_mcmc::verif::set_global(None);
    let mut why = vec![];
    match r {
        Err(p) => why.push(format!("panic: {p}")),
        Ok(Err(e)) => why.push(format!("Err: {e}")),
        Ok(Ok((draws, stats))) => {
            events.lock().unwrap().push(json!({"e": "done"}));
            if draws.shape() != [n, nc, 2] {
                why.push(format!("shape {:?}", draws.shape()));
            } else {
                'outer: for c in 0..n {
                    for k in 0..nc {
                        let t = nd + k + 1;
                        let want = [value_of(c, t), c as f64 + 0.5 * value_of(c + 77, t)];
                        if draws[[c, k, 0]] != want[0] || draws[[c, k, 1]] != want[1] {
                            why.push(format!("draw [{c}][{k}] is not chain {c}'s state after {t} transitions"));
                            break 'outer;
                        }
                    }
                }
                let want = RunStats::from(draws.view());
                if !same_stats(&stats, &want) {
                    why.push(format!("diagnostics differ from those of the returned draws: {stats:?} vs {want:?}"));
                }
            }
            for ch in &s.chains {
                if ch.steps != total {
                    why.push(format!("chain {} made {} transitions, expected {total}", ch.id, ch.steps));
                }
            }
        }
    }
    let ev = events.lock().unwrap().clone();
    println!("{}", json!({"summary": true, "why": why, "events": ev}));
}

// ------------------------------------------------------------------ configurations
#[derive(Clone)]
struct DetCond;
impl<T: num_traits::NumCast + Copy> Conditional<T> for DetCond {
    fn sample(&mut self, i: usize, given: &[T]) -> T {
        let o: f64 = num_traits::cast(given[(i + 1) % given.len()]).unwrap();
        num_traits::cast(((o * 3.0 + i as f64 + 1.0) as i64 % 17) as f64).unwrap()
    }
}
/// 24 coordinates, every third one clamped to a constant (its diagnostics are NaN, those of the others finite).
#[derive(Clone)]
struct WideCond;
impl<T: num_traits::NumCast + Copy> Conditional<T> for WideCond {
    fn sample(&mut self, i: usize, given: &[T]) -> T {
        if i % 3 == 0 {
            return num_traits::cast(7.0).unwrap();
        }
        let o: f64 = num_traits::cast(given[(i + 1) % given.len()]).unwrap();
        let me: f64 = num_traits::cast(given[i]).unwrap();
        num_traits::cast(((o * 3.0 + me * 5.0 + i as f64 + 1.0) as i64 % 17) as f64).unwrap()
    }
}
#[derive(Clone)]
struct IntTarget;
impl Target<i32, f64> for IntTarget {
    fn unnorm_logp(&self, p: &[i32]) -> f64 {
        -0.05 * (p[0] * p[0]) as f64
    }
}
#[derive(Clone)]
struct IntProp {
    k: u64,
}
impl Proposal<i32, f64> for IntProp {
    fn sample(&mut self, cur: &[i32]) -> Vec<i32> {
        self.k = self.k.wrapping_mul(6364136223846793005).wrapping_add(1442695040888963407);
        vec![cur[0] + ((self.k >> 33) % 3) as i32 - 1]
    }
    fn logp(&self, _f: &[i32], _t: &[i32]) -> f64 {
        0.0
    }
    fn set_seed(mut self, seed: u64) -> Self {
        self.k = seed;
        self
    }
}

fn cmp_arrays<T: PartialEq + std::fmt::Debug>(a: &Array3<T>, b: &Array3<T>) -> Option<String> {
    if a.shape() != b.shape() {
        return Some(format!("shape {:?} vs {:?}", a.shape(), b.shape()));
    }
    if a != b {
        return Some("run_progress draws differ from run() on a clone of the sampler".into());
    }
    None
}

fn tensor_to_vec<B: burn::prelude::Backend>(t: burn::tensor::Tensor<B, 3>) -> (Vec<usize>, Vec<u64>) {
    (t.dims().to_vec(), t.into_data().convert::<f64>().to_vec::<f64>().unwrap().into_iter().map(|x| x.to_bits()).collect())
}

macro_rules! hmc_cfg {
    ($T:ty, $B:ty, $n:expr, $nc:expr, $nd:expr, $pre:expr, $why:expr) => {{
        let tgt = DiffableGaussian2D::<$T>::new([0.0, 1.0], [[1.5, 0.4], [0.4, 1.0]]);
        let inits: Vec<Vec<$T>> = (0..$n).map(|i| vec![i as $T * 0.3, -(i as $T) * 0.2]).collect();
        let mut a = HMC::<$T, Autodiff<NdArray<$B>>, _>::new(tgt, inits, 0.2, 3).set_seed(9);
        if $pre {
            let _ = a.run(3, 2);
        }
        let mut b = a.clone();
        match a.run_progress($nc, $nd) {
            Err(e) => $why.push(format!("Err: {e}")),
            Ok((draws, stats)) => {
                let plain = b.run($nc, $nd);
                let (d1, v1) = tensor_to_vec(draws.clone());
                let (d2, v2) = tensor_to_vec(plain);
                if d1 != d2 || v1 != v2 {
                    $why.push("run_progress draws differ from run() on a clone of the sampler".to_string());
                }
                // diagnostics "computed from the returned draws": in the draws' own precision (f64 holds f32 and f64 draws exactly)
                let f64v: Vec<f64> = draws.into_data().convert::<f64>().to_vec::<f64>().unwrap();
                let arr = Array3::from_shape_vec((d1[0], d1[1], d1[2]), f64v).unwrap();
                if !same_stats(&stats, &RunStats::from(arr.view())) {
                    $why.push("diagnostics differ from those of the returned draws".to_string());
                }
            }
        }
    }};
}
macro_rules! nuts_cfg {
    ($T:ty, $B:ty, $n:expr, $nc:expr, $nd:expr, $pre:expr, $why:expr) => {{
        let tgt = DiffableGaussian2D::<$T>::new([0.0, 1.0], [[1.5, 0.4], [0.4, 1.0]]);
        let inits: Vec<Vec<$T>> = (0..$n).map(|i| vec![i as $T * 0.3, -(i as $T) * 0.2]).collect();
        let mut a = NUTS::<$T, Autodiff<NdArray<$B>>, _>::new(tgt, inits, 0.8).set_seed(9);
        if $pre {
            let _ = a.run(3, 2);
        }
        let mut b = a.clone();
        match a.run_progress($nc, $nd) {
            Err(e) => $why.push(format!("Err: {e}")),
            Ok((draws, stats)) => {
                // run() keeps the state BEFORE its first transition as first draw: the same trajectory,
                // shifted by one draw: progress[k] = plain[k + 1] with plain = run(nc + 1, nd)
                let plain = b.run($nc + 1, $nd);
                let (d1, v1) = tensor_to_vec(draws.clone());
                let (d2, v2) = tensor_to_vec(plain);
                let dim = d1[2];
                let mut ok = d1[0] == d2[0] && d1[1] + 1 == d2[1] && dim == d2[2];
                if ok {
                    for c in 0..d1[0] {
                        for k in 0..d1[1] {
                            for j in 0..dim {
                                ok &= v1[(c * d1[1] + k) * dim + j] == v2[(c * d2[1] + k + 1) * dim + j];
                            }
                        }
                    }
                }
                if !ok {
                    $why.push("run_progress draws are not run()'s trajectory shifted by one draw".to_string());
                }
                // diagnostics "computed from the returned draws": in the draws' own precision (f64 holds f32 and f64 draws exactly)
                let f64v: Vec<f64> = draws.into_data().convert::<f64>().to_vec::<f64>().unwrap();
                let arr = Array3::from_shape_vec((d1[0], d1[1], d1[2]), f64v).unwrap();
                if !same_stats(&stats, &RunStats::from(arr.view())) {
                    $why.push("diagnostics differ from those of the returned draws".to_string());
                }
            }
        }
    }};
}

pub fn config(args: &[String]) {
    let c: Value = serde_json::from_str(&args[0]).unwrap();
    let n = c["n"].as_u64().unwrap() as usize;
    let (nc, nd) = (c["nc"].as_u64().unwrap() as usize, c["nd"].as_u64().unwrap() as usize);
    let kind = c["kind"].as_str().unwrap().to_string();
    let ty = c["ty"].as_str().unwrap().to_string();
    let pre = c["pre"].as_bool().unwrap_or(false);
    let mut why: Vec<String> = vec![];
    let r = catch(|| {
        let mut why: Vec<String> = vec![];
        match (kind.as_str(), ty.as_str()) {
            ("MH", "f64") | ("MH", "f32") => {
                macro_rules! go { ($T:ty) => {{
                    let tgt = Gaussian2D::<$T> { mean: arr1(&[0.0, 0.5]), cov: arr2(&[[1.0, 0.3], [0.3, 2.0]]) };
                    let inits: Vec<Vec<$T>> = (0..n).map(|i| vec![i as $T * 0.1, 0.0]).collect();
                    let mut a = MetropolisHastings::new(tgt, IsotropicGaussian::<$T>::new(0.8).set_seed(3), inits).seed(5);
                    if pre { let _ = a.run(3, 2); }
                    let mut b = a.clone();
                    match a.run_progress(nc, nd) {
                        Err(e) => why.push(format!("Err: {e}")),
                        Ok((d, st)) => {
                            if let Some(w) = cmp_arrays(&d, &b.run(nc, nd).unwrap()) { why.push(w); }
                            if !same_stats(&st, &RunStats::from(d.view())) { why.push("diagnostics differ from those of the returned draws".into()); }
                        }
                    }
                }}; }
                if ty == "f64" { go!(f64) } else { go!(f32) }
            }
            ("MH", "i32") => {
                let inits: Vec<Vec<i32>> = (0..n).map(|i| vec![i as i32]).collect();
                let mut a = MetropolisHastings::new(IntTarget, IntProp { k: 7 }, inits).seed(5);
                if pre { let _ = a.run(3, 2); }
                let mut b = a.clone();
                match a.run_progress(nc, nd) {
                    Err(e) => why.push(format!("Err: {e}")),
                    Ok((d, st)) => {
                        if let Some(w) = cmp_arrays(&d, &b.run(nc, nd).unwrap()) { why.push(w); }
                        if !same_stats(&st, &RunStats::from(d.view())) { why.push("diagnostics differ from those of the returned draws".into()); }
                    }
                }
            }
            ("GibbsWide", _) => {
                // many parameters, some of them constant: the summary has to cope with NaN diagnostics among finite ones
                let inits: Vec<Vec<f64>> = (0..n).map(|i| (0..24).map(|k| if k % 3 == 0 { 7.0 } else { (i + k) as f64 }).collect()).collect();
                let mut a = GibbsSampler::new(WideCond, inits.clone()).set_seed(1);
                let mut b = GibbsSampler::new(WideCond, inits).set_seed(1);
                if pre { let _ = a.run(3, 2); let _ = b.run(3, 2); }
                match a.run_progress(nc, nd) {
                    Err(e) => why.push(format!("Err: {e}")),
                    Ok((d, _st)) => {
                        if let Some(w) = cmp_arrays(&d, &b.run(nc, nd).unwrap()) { why.push(w); }
                    }
                }
            }
            ("Gibbs", _) => {
                macro_rules! go { ($T:ty) => {{
                    let inits: Vec<Vec<$T>> = (0..n).map(|i| vec![i as $T, 1 as $T, 2 as $T]).collect();
                    let mut a = GibbsSampler::new(DetCond, inits.clone()).set_seed(1);
                    let mut b = GibbsSampler::new(DetCond, inits).set_seed(1);
                    if pre { let _ = a.run(3, 2); let _ = b.run(3, 2); }
                    match a.run_progress(nc, nd) {
                        Err(e) => why.push(format!("Err: {e}")),
                        Ok((d, st)) => {
                            if let Some(w) = cmp_arrays(&d, &b.run(nc, nd).unwrap()) { why.push(w); }
                            if !same_stats(&st, &RunStats::from(d.view())) { why.push("diagnostics differ from those of the returned draws".into()); }
                        }
                    }
                }}; }
                match ty.as_str() { "f64" => go!(f64), "f32" => go!(f32), _ => go!(i32) }
            }
            ("HMC", "f32/f32") => hmc_cfg!(f32, f32, n, nc, nd, pre, why),
            ("HMC", "f64/f64") => hmc_cfg!(f64, f64, n, nc, nd, pre, why),
            ("HMC", "f32/f64") => hmc_cfg!(f32, f64, n, nc, nd, pre, why),
            ("HMC", "f64/f32") => hmc_cfg!(f64, f32, n, nc, nd, pre, why),
            ("NUTS", "f32/f32") => nuts_cfg!(f32, f32, n, nc, nd, pre, why),
            ("NUTS", "f64/f64") => nuts_cfg!(f64, f64, n, nc, nd, pre, why),
            ("NUTS", "f32/f64") => nuts_cfg!(f32, f64, n, nc, nd, pre, why),
            ("NUTS", "f64/f32") => nuts_cfg!(f64, f32, n, nc, nd, pre, why),
            (k, t) => tool_error(&format!("config {k} {t}")),
        }
        why
    });
    match r {
        Ok(w) => why.extend(w),
        Err(p) => why.push(format!("panic: {p}")),
    }
    println!("{}", json!({"summary": true, "why": why}));
}

// ------------------------------------------------------------------ faults
struct PlainCount {
    id: usize,
    steps: usize,
    state: Vec<f64>,
    drop_at: usize,
    slow: bool,
    rx: Option<std::sync::mpsc::Receiver<mini_mcmc::stats::ChainStats>>,
}
impl MarkovChain<f64> for PlainCount {
    fn step(&mut self) -> &Vec<f64> {
        self.steps += 1;
        if self.slow {
            // several transitions per reporting period: the worker attempts periodic sends
            std::thread::sleep(std::time::Duration::from_millis(350));
        }
        if self.steps == self.drop_at {
            self.rx = None; // the listener goes away in the middle of the worker's run
        }
        self.state = vec![value_of(self.id, self.steps)];
        &self.state
    }
    fn current_state(&self) -> &Vec<f64> {
        &self.state
    }
}
pub fn fault(args: &[String]) {
    let c: Value = serde_json::from_str(&args[0]).unwrap();
    let (nc, nd) = (c["nc"].as_u64().unwrap() as usize, c["nd"].as_u64().unwrap() as usize);
    let drop_at = c["drop_at"].as_u64().unwrap() as usize; // 0 = before the run, total + 1 = after
    let (tx, rx) = std::sync::mpsc::channel();
    let slow = c["slow"].as_bool().unwrap_or(false);
    let mut ch = PlainCount { id: 3, steps: 0, state: vec![0.0], drop_at, slow, rx: if drop_at == 0 { None } else { Some(rx) } };
    let mut why = vec![];
    match catch(|| run_chain_progress(&mut ch, nc, nd, tx)) {
        Err(p) => why.push(format!("panic: {p}")),
        Ok(Err(e)) => why.push(format!("Err: {e}")),
        Ok(Ok(out)) => {
            let mut plain = PlainCount { id: 3, steps: 0, state: vec![0.0], drop_at: usize::MAX, slow: false, rx: None };
            let want = run_chain(&mut plain, nc, nd);
            if out != want {
                why.push("draws differ from run_chain's".into());
            }
            if ch.steps != nc + nd {
                why.push(format!("{} transitions instead of {}", ch.steps, nc + nd));
            }
        }
    }
    println!("{}", json!({"summary": true, "why": why}));
}
