//! conform: conformance harness binding the TLA+ specification suite in /verif/spec to the
//! implementation in /repo (path dependency, `verif-hooks` feature on).
//!
//!   conform <property> replay <behaviours.ndjson> [opts]   spec -> impl
//!   conform <property> record --seed S --out trace.ndjson  impl -> spec
mod util;
mod c01;
mod c02;
mod c03;
mod extra;
mod c04;
mod nutsrec;
mod c05;
mod c07;
mod c08;
mod c09;
mod c10;
mod stats;
mod session;
mod c13;
mod c14;
mod c16;
mod c17;
mod c18;
mod c15;

fn main() {
    let args: Vec<String> = std::env::args().collect();
    if args.len() < 3 {
        util::tool_error("usage: conform <property> <mode> ...");
    }
    let rest = &args[3..];
    match (args[1].as_str(), args[2].as_str()) {
        ("c01", "replay") => c01::replay(rest),
        ("c01", "record") => c01::record(rest),
        ("c05", "replay") => c05::replay(rest),
        ("c05", "record") => c05::record(rest),
        ("stats", "replay") => stats::replay(rest),
        ("stats", "basic") => stats::basic(rest),
        ("c13", "replay") => c13::replay(rest),
        ("c13", "grid") => c13::grid(rest),
        ("c13", "record") => c13::record(rest),
        ("c16", "replay") => c16::replay(rest),
        ("c15", "replay") => c15::replay(rest),
        ("c18", "replay") => c18::replay(rest),
        ("c17", "replay") => c17::replay(rest),
        ("c09", "replay") => c09::replay(rest),
        ("c09", "record") => c09::record(rest),
        ("c07", "scenario") => c07::scenario(rest),
        ("c08", "record") => c08::record(rest),
        ("c10", "schedule") => c10::schedule(rest),
        ("c10", "config") => c10::config(rest),
        ("c10", "fault") => c10::fault(rest),
        ("c02", "replay") => c02::replay(rest),
        ("c02", "record") => c02::record(rest),
        ("extra", "unsplit") => extra::unsplit(rest),
        ("c03", "record") => c03::record(rest),
        ("c03", "replay") => c03::replay(rest),
        ("c04", "record") => c04::record(rest),
        ("c14", "record") => c14::record(rest),
        ("c14", "probe") => c14::probe(rest),
        ("session", "replay") => session::replay(rest),
        (p, m) => util::tool_error(&format!("unknown command {p} {m}")),
    }
}
