//! C08 — chains are driven by distinct random streams.  Records stream fingerprints of every
//! generator a multi-chain sampler owns ("fp" events for spec/Trace_Seeds.tla).
use crate::util::*;
use burn::backend::{Autodiff, NdArray};
use mini_mcmc::core::MarkovChain;
use mini_mcmc::distributions::{DiffableGaussian2D, Gaussian2D, IsotropicGaussian, Proposal};
use mini_mcmc::hmc::HMC;
use mini_mcmc::metropolis_hastings::MetropolisHastings;
use mini_mcmc::nuts::NUTS;
use ndarray::{arr1, arr2};
use rand::rngs::SmallRng;
use rand::{Rng, RngCore, SeedableRng};
use rand_distr::{Distribution, Normal};
use serde_json::{json, Value};
use std::cell::RefCell;
use std::rc::Rc;
use std::sync::{Arc, Mutex};

type B32 = Autodiff<NdArray<f32>>;

fn rng_fp(r: &SmallRng) -> String {
    let mut c = r.clone();
    format!("{:016x}{:016x}{:016x}", c.next_u64(), c.next_u64(), c.next_u64())
}
fn vec_fp(v: &[f64]) -> String {
    v.iter().map(|x| format!("{:016x}", x.to_bits())).collect::<Vec<_>>().join("")
}

fn target() -> Gaussian2D<f64> {
    Gaussian2D::<f64> { mean: arr1(&[0.0, 0.0]), cov: arr2(&[[1.0, 0.2], [0.2, 1.0]]) }
}

fn mh_library(n: usize, seed: Option<u64>) -> Value {
    let std = 0.7;
    let inits = vec![vec![0.25f64, -0.5]; n];
    let mut s = MetropolisHastings::new(target(), IsotropicGaussian::<f64>::new(std), inits);
    if let Some(sd) = seed {
        s = s.seed(sd);
    }
    let acc: Vec<String> = s.chains.iter().map(|c| rng_fp(&c.rng)).collect();
    let prop: Vec<String> = s.chains.iter().map(|c| {
        // one sample only: how many variates a call consumes beyond its output is not specified
        let mut p = c.proposal.clone();
        vec_fp(&p.sample(&[0.0, 0.0]))
    }).collect();
    // what the library's proposal would produce if it were seeded exactly like the acceptance generator
    let accasprop: Vec<String> = s.chains.iter().map(|c| {
        let mut r = c.rng.clone();
        let nrm = Normal::new(0.0f64, std).unwrap();
        let v: Vec<f64> = (0..2).map(|_| nrm.sample(&mut r) + 0.0).collect();
        vec_fp(&v)
    }).collect();
    // trajectories from the common start: the sequence of proposals and acceptance draws decides them
    let after: Vec<String> = s.chains.iter_mut().map(|c| {
        let mut v = vec![];
        for _ in 0..6 {
            v.extend(c.step().clone());
        }
        vec_fp(&v)
    }).collect();
    json!({"e": "fp", "kind": "MH/IsotropicGaussian", "n": n, "seed": seed.map(|s| s.to_string()).unwrap_or("none".into()), "acc": acc, "prop": prop, "accasprop": accasprop, "after": after})
}

/// A user-defined seedable proposal: remembers the seed it was given, draws from its own generator.
#[derive(Clone)]
struct UserProp {
    rng: SmallRng,
    seeds_seen: Arc<Mutex<Vec<u64>>>,
}
impl Proposal<f64, f64> for UserProp {
    fn sample(&mut self, cur: &[f64]) -> Vec<f64> {
        cur.iter().map(|x| x + self.rng.random::<f64>() - 0.5).collect()
    }
    fn logp(&self, _f: &[f64], _t: &[f64]) -> f64 {
        0.0
    }
    fn set_seed(mut self, seed: u64) -> Self {
        self.seeds_seen.lock().unwrap().push(seed);
        self.rng = SmallRng::seed_from_u64(seed);
        self
    }
}
fn mh_user(n: usize, seed: Option<u64>) -> Value {
    let seen: Arc<Mutex<Vec<u64>>> = Default::default();
    let inits = vec![vec![0.25f64, -0.5]; n];
    let up = UserProp { rng: SmallRng::seed_from_u64(12345), seeds_seen: seen.clone() };
    let mut s = MetropolisHastings::new(target(), up, inits);
    if let Some(sd) = seed {
        s = s.seed(sd);
    }
    let acc: Vec<String> = s.chains.iter().map(|c| rng_fp(&c.rng)).collect();
    let prop: Vec<String> = s.chains.iter().map(|c| rng_fp(&c.proposal.rng)).collect();
    let after: Vec<String> = s.chains.iter_mut().map(|c| {
        let mut v = vec![];
        for _ in 0..6 {
            v.extend(c.step().clone());
        }
        vec_fp(&v)
    }).collect();
    json!({"e": "fp", "kind": "MH/user proposal", "n": n, "seed": seed.map(|s| s.to_string()).unwrap_or("none".into()), "acc": acc.clone(), "prop": prop, "accasprop": acc, "after": after})
}

fn hmc(n: usize, seed: Option<u64>) -> Value {
    let tgt = DiffableGaussian2D::<f32>::new([0.0, 0.0], [[1.0, 0.2], [0.2, 1.0]]);
    let mut s = HMC::<f32, B32, _>::new(tgt, vec![vec![0.25f32, -0.5]; n], 0.2, 3);
    if let Some(sd) = seed {
        s = s.set_seed(sd);
    }
    let rows: Rc<RefCell<Vec<String>>> = Default::default();
    let us: Rc<RefCell<Vec<String>>> = Default::default();
    let (r2, u2) = (rows.clone(), us.clone());
    mini_mcmc::verif::set_sink(Some(Box::new(move |name, ints, f| {
        if name == "hmc_begin" && r2.borrow().is_empty() {
            let (nc, d) = (ints[0] as usize, ints[1] as usize);
            for c in 0..nc {
                r2.borrow_mut().push(vec_fp(&f[nc * d + c * d..nc * d + (c + 1) * d]));
            }
        }
        if name == "hmc_u" && u2.borrow().is_empty() {
            for u in f {
                u2.borrow_mut().push(vec_fp(&[*u]));
            }
        }
    })));
    let r = catch(|| {
        for _ in 0..4 {
            s.step();
        }
        s.positions.clone().into_data().convert::<f64>().to_vec::<f64>().unwrap()
    });
    mini_mcmc::verif::set_sink(None);
    let after: Vec<String> = match r {
        Ok(p) => (0..n).map(|c| vec_fp(&p[c * 2..c * 2 + 2])).collect(),
        Err(e) => vec![format!("panic {e}"); 2],
    };
    // momenta rows play the role of "proposal noise", the uniforms that of acceptance draws
    let mom = rows.borrow().clone();
    let uu = us.borrow().clone();
    json!({"e": "fp", "kind": "HMC", "n": n, "seed": seed.map(|s| s.to_string()).unwrap_or("none".into()), "acc": uu, "prop": mom, "accasprop": Vec::<String>::new(), "after": after})
}

/// Standard Gaussian in any dimension (batched): large HMC batches (n_chains x dim in the tens of thousands).
#[derive(Clone)]
struct StdGaussBatch;
impl<B: burn::tensor::backend::AutodiffBackend> mini_mcmc::distributions::BatchedGradientTarget<f32, B> for StdGaussBatch {
    fn unnorm_logp_batch(&self, x: burn::tensor::Tensor<B, 2>) -> burn::tensor::Tensor<B, 1> {
        let n = x.dims()[0];
        x.powi_scalar(2).sum_dim(1).mul_scalar(-0.5).reshape([n])
    }
}
fn short_fp(v: &[f64]) -> String {
    let mut h: u64 = 0xcbf29ce484222325;
    for x in v {
        for b in x.to_bits().to_le_bytes() {
            h ^= b as u64;
            h = h.wrapping_mul(0x100000001b3);
        }
    }
    format!("{h:016x}/{}", v.len())
}
fn hmc_big(n: usize, d: usize, seed: Option<u64>) -> Value {
    let mut s = HMC::<f32, B32, _>::new(StdGaussBatch, vec![vec![0.25f32; d]; n], 0.05, 2);
    if let Some(sd) = seed {
        s = s.set_seed(sd);
    }
    let rows: Rc<RefCell<Vec<String>>> = Default::default();
    let us: Rc<RefCell<Vec<String>>> = Default::default();
    let (r2, u2) = (rows.clone(), us.clone());
    mini_mcmc::verif::set_sink(Some(Box::new(move |name, ints, f| {
        if name == "hmc_begin" && r2.borrow().is_empty() {
            let (nc, d) = (ints[0] as usize, ints[1] as usize);
            for c in 0..nc {
                r2.borrow_mut().push(short_fp(&f[nc * d + c * d..nc * d + (c + 1) * d]));
            }
        }
        if name == "hmc_u" && u2.borrow().is_empty() {
            for u in f {
                u2.borrow_mut().push(vec_fp(&[*u]));
            }
        }
    })));
    let r = catch(|| {
        for _ in 0..2 {
            s.step();
        }
        s.positions.clone().into_data().convert::<f64>().to_vec::<f64>().unwrap()
    });
    mini_mcmc::verif::set_sink(None);
    let after: Vec<String> = match r {
        Ok(p) => (0..n).map(|c| short_fp(&p[c * d..(c + 1) * d])).collect(),
        Err(e) => vec![format!("panic {e}"); 2],
    };
    let mom = rows.borrow().clone();
    let uu = us.borrow().clone();
    json!({"e": "fp", "kind": format!("HMC dim {d}"), "n": n, "seed": seed.map(|s| s.to_string()).unwrap_or("none".into()), "acc": uu, "prop": mom, "accasprop": Vec::<String>::new(), "after": after})
}

fn nuts(n: usize, seed: Option<u64>) -> Value {
    let tgt = DiffableGaussian2D::<f32>::new([0.0, 0.0], [[1.0, 0.2], [0.2, 1.0]]);
    let mut s = NUTS::<f32, B32, _>::new(tgt, vec![vec![0.25f32, -0.5]; n], 0.8);
    if let Some(sd) = seed {
        s = s.set_seed(sd);
    }
    let acc: Vec<String> = s.verif_chains().iter().map(|c| rng_fp(&c.verif_rng_clone())).collect();
    let mut singles = s.verif_chains().clone();
    let after: Vec<String> = singles.iter_mut().map(|c| {
        let out = c.run(5, 0).into_data().convert::<f64>().to_vec::<f64>().unwrap();
        vec_fp(&out)
    }).collect();
    json!({"e": "fp", "kind": "NUTS", "n": n, "seed": seed.map(|s| s.to_string()).unwrap_or("none".into()), "acc": acc, "prop": Vec::<String>::new(), "accasprop": Vec::<String>::new(), "after": after})
}

pub fn record(args: &[String]) {
    let mut out = NdjsonOut::create(arg(args, "--out").unwrap());
    let thorough = args.iter().any(|a| a == "--thorough");
    let seed = arg_u64(args, "--seed", 1);
    let ns: Vec<usize> = if thorough { vec![2, 3, 5, 8, 17, 33, 64] } else { vec![2, 3, 8, 33] };
    let mut seeds: Vec<Option<u64>> = vec![None, Some(0), Some(42), Some(u64::MAX), Some(u64::MAX - 1), Some((1u64 << 63) - 2), Some(42 + (1u64 << 32))];
    let mut s = seed;
    seeds.push(Some(splitmix(&mut s)));
    for &n in &ns {
        for sd in &seeds {
            for f in [mh_library as fn(usize, Option<u64>) -> Value, mh_user, hmc, nuts] {
                match catch(|| f(n, *sd)) {
                    Ok(v) => out.push(&v),
                    Err(e) => out.push(&json!({"e": "panic", "n": n, "seed": sd.map(|s| s.to_string()).unwrap_or("none".into()), "msg": e})),
                }
            }
        }
    }
    // large HMC batches: tens of thousands of momentum components per step
    let big: Vec<(usize, usize)> = if thorough { vec![(64, 256), (2, 8192), (33, 1000), (64, 1024), (3, 40000)] } else { vec![(64, 256), (2, 8192), (33, 1000)] };
    for (n, d) in big {
        for sd in [None, Some(42u64), Some(u64::MAX)] {
            match catch(|| hmc_big(n, d, sd)) {
                Ok(v) => out.push(&v),
                Err(e) => out.push(&json!({"e": "panic", "n": n, "seed": sd.map(|s| s.to_string()).unwrap_or("none".into()), "msg": e})),
            }
        }
    }
    let n = out.finish();
    println!("{}", json!({"summary": true, "events": n}));
}
