//! Shared helpers: crafted generators, JSON I/O, panic capture.
use rand::rngs::SmallRng;
use rand::SeedableRng;
use serde_json::Value;
use std::io::{BufRead, BufReader, Write};

/// A `SmallRng` (xoshiro256++) whose *next* `next_u64()` is exactly `v`.
/// xoshiro256++: result = rotl(s0 + s3, 23) + s0; with s0 = 0 this is rotl(s3, 23).
/// `random::<f64>()` is then (v >> 11) * 2^-53 and `random::<f32>()` is (v >> 40) * 2^-24.
pub fn crafted_rng(v: u64) -> SmallRng {
    let words: [u64; 4] = [0, 1, 0, v.rotate_right(23)];
    let mut seed = [0u8; 32];
    for (i, w) in words.iter().enumerate() {
        seed[i * 8..(i + 1) * 8].copy_from_slice(&w.to_le_bytes());
    }
    SmallRng::from_seed(seed)
}

pub fn read_ndjson(path: &str) -> Vec<Value> {
    let f = std::fs::File::open(path).unwrap_or_else(|e| tool_error(&format!("open {path}: {e}")));
    BufReader::new(f)
        .lines()
        .map(|l| l.unwrap())
        .filter(|l| !l.trim().is_empty())
        .map(|l| serde_json::from_str(&l).unwrap_or_else(|e| tool_error(&format!("bad json {l}: {e}"))))
        .collect()
}

pub struct NdjsonOut {
    w: std::io::BufWriter<std::fs::File>,
    pub n: usize,
}
impl NdjsonOut {
    pub fn create(path: &str) -> Self {
        let f = std::fs::File::create(path).unwrap_or_else(|e| tool_error(&format!("create {path}: {e}")));
        Self { w: std::io::BufWriter::new(f), n: 0 }
    }
    pub fn push(&mut self, v: &Value) {
        serde_json::to_writer(&mut self.w, v).unwrap();
        self.w.write_all(b"\n").unwrap();
        self.n += 1;
    }
    pub fn finish(mut self) -> usize {
        self.w.flush().unwrap();
        self.n
    }
}

/// The machinery itself is broken (not the code under test): exit 3, the driver maps it to 2.
pub fn tool_error(msg: &str) -> ! {
    eprintln!("HARNESS-TOOL-ERROR: {msg}");
    std::process::exit(3)
}

/// Runs `f`, turning a panic of the code under test into `Err(message)`.
pub fn catch<T>(f: impl FnOnce() -> T) -> Result<T, String> {
    let prev = std::panic::take_hook();
    std::panic::set_hook(Box::new(|_| {}));
    let r = std::panic::catch_unwind(std::panic::AssertUnwindSafe(f));
    std::panic::set_hook(prev);
    r.map_err(|e| {
        if let Some(s) = e.downcast_ref::<String>() {
            s.clone()
        } else if let Some(s) = e.downcast_ref::<&str>() {
            s.to_string()
        } else {
            "panic".to_string()
        }
    })
}

pub fn arg<'a>(args: &'a [String], name: &str) -> Option<&'a str> {
    args.iter().position(|a| a == name).and_then(|i| args.get(i + 1)).map(|s| s.as_str())
}
pub fn arg_u64(args: &[String], name: &str, default: u64) -> u64 {
    arg(args, name).map(|s| s.parse().unwrap_or_else(|_| tool_error(&format!("bad {name}")))).unwrap_or(default)
}

/// ExtReal record {"k": kind, "v": int} -> float, finite unit given by `unit`.
pub fn ext_to_f64(v: &Value, unit: f64) -> f64 {
    match v["k"].as_str().unwrap() {
        "ninf" => f64::NEG_INFINITY,
        "pinf" => f64::INFINITY,
        "nan" => f64::NAN,
        "fin" => v["v"].as_i64().unwrap() as f64 * unit,
        k => tool_error(&format!("bad kind {k}")),
    }
}

/// Simple deterministic splitmix64 for drivers that need many independent seeds.
pub fn splitmix(x: &mut u64) -> u64 {
    *x = x.wrapping_add(0x9E3779B97F4A7C15);
    let mut z = *x;
    z = (z ^ (z >> 30)).wrapping_mul(0xBF58476D1CE4E5B9);
    z = (z ^ (z >> 27)).wrapping_mul(0x94D049BB133111EB);
    z ^ (z >> 31)
}
