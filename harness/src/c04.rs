//! C04 — NUTS step size: dual averaging in warm-up, frozen afterwards (record mode for
//! spec/Trace_DualAvg.tla).
use crate::nutsrec::*;
use crate::util::*;
use burn::backend::{Autodiff, NdArray};
use burn::prelude::*;
use mini_mcmc::distributions::{DiffableGaussian2D, Rosenbrock2D};
use serde_json::{json, Value};

type B64 = Autodiff<NdArray<f64>>;
type B32 = Autodiff<NdArray<f32>>;

fn push_chain(out: &mut NdjsonOut, label: &str, delta: f64, raw: &Raw, own: &OwnN, tol: f64, forced: bool, stats: &mut Vec<Value>, panic: Option<String>) {
    out.push(&json!({"e": "chain", "label": label, "delta": crate::c02::fx16(delta)}));
    let p = project_with(raw, own, tol, delta, forced);
    for e in &p.adapt {
        out.push(e);
    }
    // realised acceptance statistic after warm-up (reported, asserted only loosely by the driver)
    let post: Vec<f64> = p.adapt.iter().filter(|e| e["e"] == "step" && e["m"].as_i64().unwrap() > e["nd"].as_i64().unwrap() && e["a_mean"]["k"] == "fin")
        .map(|e| e["a_mean"]["v"].as_i64().unwrap() as f64 / 65536.0).collect();
    let mean = if post.is_empty() { f64::NAN } else { post.iter().sum::<f64>() / post.len() as f64 };
    stats.push(json!({"label": label, "delta": delta, "steps": p.adapt.iter().filter(|e| e["e"] == "step").count(),
        "post_warmup_steps": post.len(), "post_warmup_mean_accept": if mean.is_nan() { Value::Null } else { json!(mean) }, "panic": panic}));
}

pub fn record(args: &[String]) {
    let seed = arg_u64(args, "--seed", 1);
    let thorough = args.iter().any(|a| a == "--thorough");
    let mut out = NdjsonOut::create(arg(args, "--out").unwrap());
    let mut stats = vec![];
    let mut s = seed;
    let warmups: Vec<usize> = if thorough { vec![0, 1, 3, 50, 500, 2000] } else { vec![0, 1, 3, 50, 300] };
    for (i, &w) in warmups.iter().enumerate() {
        // requested acceptance rates over the whole of (0.5, 0.99), the ends paired with warm-ups that really adapt
        let delta = [0.57, 0.985, 0.52, 0.97, 0.8, 0.65][i % 6];
        let sd = splitmix(&mut s);
        // standard Gaussian, f64
        let prec = vec![vec![1.0, 0.0], vec![0.0, 1.0]];
        let runs: Vec<(usize, usize)> = vec![(if w >= 300 { 120 } else { 12 }, w), (5, 0), (6, w / 2 + 2)];
        let (raw, panic) = run_chain::<B64, f64, _>(GaussP { prec: prec.clone() }, vec![0.5, -0.3], delta, sd, &runs, None);
        push_chain(&mut out, &format!("stdgauss/f64 warmup={w} delta={delta}"), delta, &raw, &OwnN::GaussP { prec }, 1e-7, false, &mut stats, panic);
        // library Gaussian, f32
        let (mean, cov) = ([0.5f32, -0.25], [[1.5f32, 0.5], [0.5, 1.0]]);
        let (raw, panic) = run_chain::<B32, f32, _>(DiffableGaussian2D::<f32>::new(mean, cov), vec![1.0, 1.0], delta, sd + 1, &[(10, w.min(500)), (4, 3)], None);
        let own = OwnN::Gauss2Lib { mean: [mean[0] as f64, mean[1] as f64], cov: [[cov[0][0] as f64, cov[0][1] as f64], [cov[1][0] as f64, cov[1][1] as f64]] };
        push_chain(&mut out, &format!("gauss2lib/f32 warmup={w}"), delta as f32 as f64, &raw, &own, 5e-4, false, &mut stats, panic);
        // first call ends INSIDE its warm-up, later calls have shorter / no warm-up (the boundary transition is never visited)
        if w >= 3 {
            let (raw, panic) = run_chain::<B64, f64, _>(GaussP { prec: vec![vec![1.0, 0.0], vec![0.0, 1.0]] }, vec![0.5, -0.3], delta, sd + 4, &[(1, w.min(60)), (9, 0), (4, w.min(60) / 2)], None);
            push_chain(&mut out, &format!("stdgauss/f64 interrupted warmup={}", w.min(60)), delta, &raw, &OwnN::GaussP { prec: vec![vec![1.0, 0.0], vec![0.0, 1.0]] }, 1e-7, false, &mut stats, panic);
        }
        if w <= 50 {
            let (raw, panic) = run_chain::<B64, f64, _>(Rosenbrock2D::<f64> { a: 1.0, b: 10.0 }, vec![0.2, 0.1], delta, sd + 2, &[(8, w), (3, w + 5)], None);
            push_chain(&mut out, &format!("rosen2/f64 warmup={w}"), delta, &raw, &OwnN::Rosen2 { a: 1.0, b: 10.0 }, 1e-7, false, &mut stats, panic);
            let (raw, panic) = run_chain::<B64, f64, _>(HalfLineN, vec![0.7, 1.5], delta, sd + 3, &[(8, w)], None);
            push_chain(&mut out, &format!("halfline/f64 warmup={w}"), delta, &raw, &OwnN::HalfLine, 1e-7, false, &mut stats, panic);
        }
    }
    // RESUMED warm-ups: a later run() call whose warm-up reaches beyond the transitions made so far adapts again -- it has to
    // continue the dual averaging (same shrinkage point, next iteration), whatever happened in between
    {
        let sd = splitmix(&mut s);
        let id3 = vec![vec![1.0, 0.0, 0.0], vec![0.0, 1.0, 0.0], vec![0.0, 0.0, 1.0]];
        let (raw, panic) = run_chain::<B64, f64, _>(GaussP { prec: id3.clone() }, vec![0.5, -0.3, 0.1], 0.6, sd, &[(if thorough { 500 } else { 60 }, 30), (20, if thorough { 1000 } else { 250 })], None);
        push_chain(&mut out, "stdgauss3/f64 resumed warmup 30 -> more", 0.6, &raw, &OwnN::GaussP { prec: id3.clone() }, 1e-7, false, &mut stats, panic);
        let narrow = vec![vec![1e4]];
        let (raw, panic) = run_chain::<B32, f32, _>(GaussP { prec: narrow.clone() }, vec![0.004], 0.8, sd + 1, &[(100, 0), (3, 200)], None);
        push_chain(&mut out, "narrow/f32 run(100,0) then run(3,200)", 0.8f32 as f64, &raw, &OwnN::GaussP { prec: narrow.clone() }, 5e-4, false, &mut stats, panic);
        let (raw, panic) = run_chain::<B64, f64, _>(GaussP { prec: id3.clone() }, vec![0.5, -0.3, 0.1], 0.8, sd + 2, &[(1, 20), (1, 100), (4, 3), (2, 160)], None);
        push_chain(&mut out, "stdgauss3/f64 warm-up in three instalments", 0.8, &raw, &OwnN::GaussP { prec: id3 }, 1e-7, false, &mut stats, panic);
    }
    // long warm-ups on a bounded-support target (log-density NaN outside): the step size has to stay finite through
    // hundreds of transitions whose trajectories leave the support
    {
        let w = if thorough { 2000 } else { 700 };
        let sd = splitmix(&mut s);
        let (raw, panic) = run_chain::<B32, f32, _>(HalfLineN, vec![0.7, 1.5], 0.8, sd, &[(4, w)], None);
        push_chain(&mut out, &format!("halfline/f32 long warmup={w}"), 0.8f32 as f64, &raw, &OwnN::HalfLine, 5e-4, false, &mut stats, panic);
        let (raw, panic) = run_chain::<B64, f64, _>(HalfLineN, vec![0.7, 1.5], 0.8, sd + 1, &[(4, w)], None);
        push_chain(&mut out, &format!("halfline/f64 long warmup={w}"), 0.8, &raw, &OwnN::HalfLine, 1e-7, false, &mut stats, panic);
    }
    // the multi-chain front end: every chain starts from ITS OWN heuristic value (its start point, its first momentum
    // draw) and shrinks towards ln(10 eps0) of that value
    {
        use mini_mcmc::nuts::NUTS;
        use rand::Rng;
        let dev = <B64 as Backend>::Device::default();
        let sets: Vec<(&str, Vec<Vec<f64>>)> = vec![
            ("rosen2", vec![vec![0.2, 0.1], vec![-1.5, 2.5], vec![3.0, -2.0], vec![0.9, 0.8], vec![-0.1, 4.0]]),
            ("gauss-ill", vec![vec![1.0, 2.0], vec![-2.0, 1.0], vec![6.0, -3.0], vec![0.0, 0.0]]),
            // identical start points: each chain still has its own first momentum, hence its own start value
            ("rosen2-same-start", vec![vec![-1.5, 2.5]; 8]),
            ("gauss-ill-same-start", vec![vec![-2.0, 1.0]; 8]),
        ];
        for (si, (name, inits)) in sets.iter().enumerate() {
            for (mode, (nc, nd)) in [(0usize, 0usize), (6, 10), (4, 3)].into_iter().enumerate().map(|(i, (a, b))| (i, (a.max(4), b))) {
                let sd = splitmix(&mut s);
                let progress = mode == 2;
                let res: Result<Vec<Value>, String> = catch(|| {
                    macro_rules! go {
                        ($target:expr) => {{
                            let mut smp = NUTS::<f64, B64, _>::new($target, inits.clone(), 0.8).set_seed(sd);
                            let expect: Vec<f64> = smp.verif_chains().iter().zip(inits.iter()).map(|(ch, x0)| {
                                let p0: Vec<f64> = ch.verif_rng_clone().sample_iter(rand_distr::StandardNormal).take(x0.len()).collect();
                                let tx = Tensor::<B64, 1>::from_data(TensorData::new(x0.clone(), [x0.len()]), &dev);
                                let tp = Tensor::<B64, 1>::from_data(TensorData::new(p0, [x0.len()]), &dev);
                                mini_mcmc::nuts::verif_api::find_reasonable_epsilon::<B64, f64, _>(tx, tp, &$target)
                            }).collect();
                            // identical starts: one worker, so that the chains run strictly one after the other
                            let pool = rayon::ThreadPoolBuilder::new().num_threads(if name.ends_with("same-start") { 1 } else { 4 }).build().unwrap();
                            pool.install(|| if progress { let _ = smp.run_progress(nc, nd); } else { let _ = smp.run(nc, nd); });
                            smp.verif_chains().iter().enumerate().map(|(i, ch)| {
                                let (m, _nd, eps, _eb, _hb, mu) = ch.verif_state();
                                json!({"e": "multi", "set": name, "chain": i, "chains": inits.len(), "nd": nd, "progress": progress, "m": m,
                                    "eps0": crate::c02::fx16(expect[i].ln()), "mu": crate::c02::fx16(mu), "eps": crate::c02::fx16(eps.ln()),
                                    "differs_from_chain0": expect[i] != expect[0], "ok_run": true})
                            }).collect::<Vec<Value>>()
                        }};
                    }
                    if si % 2 == 0 { go!(Rosenbrock2D::<f64> { a: 1.0, b: 10.0 }) } else { go!(GaussP { prec: vec![vec![5.0, -2.0], vec![-2.0, 1.0]] }) }
                });
                match res {
                    Ok(evs) => for e in evs { out.push(&e); },
                    Err(p) => out.push(&json!({"e": "multi", "set": name, "chain": 0, "chains": inits.len(), "nd": nd, "progress": progress, "m": 0,
                        "eps0": crate::c02::fx16(f64::NAN), "mu": crate::c02::fx16(f64::NAN), "eps": crate::c02::fx16(f64::NAN), "differs_from_chain0": false, "ok_run": false, "panic": p})),
                }
            }
        }
    }
    // the start-up heuristic through the verif wrapper (k >= 5: very narrow / very wide targets, also in f32: the search
    // runs through dozens of doublings / halvings)
    let dev = <B64 as Backend>::Device::default();
    let dev32 = <B32 as Backend>::Device::default();
    let heur_targets: Vec<(OwnN, bool)> = vec![
        (OwnN::GaussP { prec: vec![vec![1.0]] }, false), (OwnN::GaussP { prec: vec![vec![1e4]] }, false), (OwnN::GaussP { prec: vec![vec![1e-4]] }, false),
        (OwnN::Steep { c: 1e3 }, false), (OwnN::HalfLine, false),
        (OwnN::GaussP { prec: vec![vec![1e10]] }, false), (OwnN::GaussP { prec: vec![vec![1e-9]] }, false),
        (OwnN::GaussP { prec: vec![vec![1e10]] }, true), (OwnN::GaussP { prec: vec![vec![1e-9]] }, true),
        // log-densities that are NaN outside the support while their gradient formula stays finite there; the second one has a
        // scale of 6e-7, so the unit first step of the search always leaves the support
        (OwnN::Gamma { a: 1.0, b: 1.0 }, false), (OwnN::Gamma { a: 2.0, b: 3e6 }, false),
    ];
    for (k, (own, f32_case)) in heur_targets.into_iter().enumerate() {
        for t in 0..(if thorough { 12 } else { 4 }) {
            let scale = match &own { OwnN::GaussP { prec } if k >= 5 => 1.0 / prec[0][0].sqrt(), OwnN::Gamma { b, .. } => 1.0 / b, _ => 1.0 };
            let x0 = vec![((0.3 + 0.4 * t as f64) * scale) as f32 as f64];
            // (the half-line targets also get momenta that point out of the support: the first trial point is then outside)
            let p0 = vec![match &own { OwnN::Gamma { .. } if t % 2 == 0 => -1.9 + 0.1 * t as f64, _ => (((splitmix(&mut s) % 4000) as f64 / 1000.0) - 2.0) as f32 as f64 }];
            let tx = Tensor::<B64, 1>::from_data(TensorData::new(x0.clone(), [1]), &dev);
            let tp = Tensor::<B64, 1>::from_data(TensorData::new(p0.clone(), [1]), &dev);
            let eps: Result<f64, String> = catch(|| match &own {
                OwnN::GaussP { prec } if f32_case => {
                    let tx = Tensor::<B32, 1>::from_data(TensorData::new(vec![x0[0] as f32], [1]), &dev32);
                    let tp = Tensor::<B32, 1>::from_data(TensorData::new(vec![p0[0] as f32], [1]), &dev32);
                    mini_mcmc::nuts::verif_api::find_reasonable_epsilon::<B32, f32, _>(tx, tp, &GaussP { prec: prec.clone() }) as f64
                }
                OwnN::GaussP { prec } => mini_mcmc::nuts::verif_api::find_reasonable_epsilon::<B64, f64, _>(tx, tp, &GaussP { prec: prec.clone() }),
                OwnN::Steep { c } => mini_mcmc::nuts::verif_api::find_reasonable_epsilon::<B64, f64, _>(tx, tp, &Steep { c: *c }),
                OwnN::Gamma { a, b } => mini_mcmc::nuts::verif_api::find_reasonable_epsilon::<B64, f64, _>(tx, tp, &crate::nutsrec::GammaN { a: *a, b: *b }),
                _ => mini_mcmc::nuts::verif_api::find_reasonable_epsilon::<B64, f64, _>(tx, tp, &HalfLineN),
            });
            let eps = match eps {
                Ok(e) => e,
                Err(p) => {
                    out.push(&json!({"e": "heur", "k": k, "eps": crate::c02::fx16(f64::NAN), "pos_finite": false, "a_one": crate::c02::fx16(f64::NAN), "a_eps": crate::c02::fx16(f64::NAN), "a_half": crate::c02::fx16(f64::NAN), "a_twice": crate::c02::fx16(f64::NAN), "slack": 0, "panic": p}));
                    continue;
                }
            };
            // log acceptance probability of one leapfrog step of size e from (x0, p0), own integrator; logged as it is (NaN
            // included): what it means for the search is decided by DualAvg!StartValueOk
            let la = |e: f64| -> f64 {
                let g = own.grad(&x0);
                let ph = p0[0] + 0.5 * e * g[0];
                let x1 = x0[0] + e * ph;
                let p1 = ph + 0.5 * e * own.grad(&[x1])[0];
                own.logp(&[x1]) - own.logp(&x0) - 0.5 * (p1 * p1 - p0[0] * p0[0])
            };
            // f32 arithmetic of the implementation against the f64 reference: a wider dead zone around the threshold (2^-16 units)
            let slack: i64 = if f32_case { 1311 } else { 2 };
            out.push(&json!({"e": "heur", "k": k, "x0": x0[0], "p0": p0[0], "eps": crate::c02::fx16(eps.ln()), "pos_finite": eps > 0.0 && eps.is_finite(),
                "a_one": crate::c02::fx16(la(1.0)), "a_eps": crate::c02::fx16(la(eps)), "a_half": crate::c02::fx16(la(eps / 2.0)), "a_twice": crate::c02::fx16(la(eps * 2.0)), "slack": slack}));
        }
    }
    let n = out.finish();
    println!("{}", json!({"summary": true, "events": n, "chains": stats}));
}
