//! C18 — initial-position helpers.  The abstract stream "k-th standard normal of seed s" of
//! spec/InitPos.tla is realised as StandardNormal draws (f64) from SmallRng::seed_from_u64(s),
//! converted with T::from_f64.
use crate::util::*;
use mini_mcmc::core::{init, init_det, init_with_seed};
use num_traits::{Float, FromPrimitive};
use rand::rngs::SmallRng;
use rand::SeedableRng;
use rand_distr::{Distribution, StandardNormal};
use serde_json::{json, Value};

fn stream<T: Float + FromPrimitive>(seed: u64, len: usize) -> Vec<T> {
    let mut rng = SmallRng::seed_from_u64(seed);
    (0..len).map(|_| { let z: f64 = StandardNormal.sample(&mut rng); T::from_f64(z).unwrap() }).collect()
}

fn check<T: Float + FromPrimitive + std::fmt::Debug + Send + 'static>(c: &Value, bad: &mut Vec<Value>, evals: &mut u64, tname: &str) {
    let n = c["n"].as_u64().unwrap() as usize;
    let d = c["d"].as_u64().unwrap() as usize;
    let seed: u64 = c["seed"].as_str().unwrap().parse().unwrap();
    let st: Vec<T> = stream(seed, n * d);
    let idx = c["idx"].as_array().unwrap();
    let mut fail = |why: String, bad: &mut Vec<Value>| {
        if bad.len() < 20 {
            bad.push(json!({"n": n, "d": d, "seed": c["seed"], "type": tname, "why": why}));
        }
    };
    let r = catch(|| init_with_seed::<T>(n, d, seed));
    *evals += 1;
    let out = match r {
        Ok(o) => o,
        Err(e) => return fail(format!("init_with_seed panicked: {e}"), bad),
    };
    if out.len() != n || out.iter().any(|r| r.len() != d) {
        return fail(format!("shape {}x{:?}", out.len(), out.first().map(|r| r.len())), bad);
    }
    for i in 0..n {
        let row = idx[i].as_array().unwrap();
        for j in 0..d {
            let k = row[j].as_u64().unwrap() as usize;
            let (g, w) = (out[i][j], st[k]);
            if !(g == w) || !g.is_finite() {
                return fail(format!("entry [{i}][{j}] = {g:?}, stream[{k}] = {w:?}"), bad);
            }
        }
    }
    // purity: same call again, and from other threads
    let again = init_with_seed::<T>(n, d, seed);
    let threads: Vec<_> = (0..3).map(|_| std::thread::spawn(move || init_with_seed::<T>(n, d, seed))).collect();
    let mut pure = again == out;
    for t in threads {
        pure &= t.join().unwrap() == out;
    }
    if !pure {
        fail("seeded initialiser is not a pure function (repeat / other thread differs)".into(), bad);
    }
    if seed == 42 && init_det::<T>(n, d) != out {
        fail("init_det != init_with_seed(42)".into(), bad);
    }
    // different seed => different values (when there is at least one entry)
    if n * d >= 2 && init_with_seed::<T>(n, d, seed ^ 1) == out {
        fail("seed ignored: seed and seed^1 give the same positions".into(), bad);
    }
    // unseeded: shape, finiteness, freshness
    let (u1, u2) = (init::<T>(n, d), init::<T>(n, d));
    if u1.len() != n || u1.iter().any(|r| r.len() != d || r.iter().any(|x| !x.is_finite())) {
        fail("init: wrong shape or non-finite".into(), bad);
    }
    if n * d >= 2 && u1 == u2 {
        fail("init: two unseeded calls returned identical positions".into(), bad);
    }
}

pub fn replay(args: &[String]) {
    let cases = read_ndjson(&args[0]);
    let mut bad = vec![];
    let mut evals = 0;
    for c in &cases {
        check::<f64>(c, &mut bad, &mut evals, "f64");
        check::<f32>(c, &mut bad, &mut evals, "f32");
    }
    println!("{}", json!({"summary": true, "cases": cases.len(), "evaluations": evals, "bad": bad}));
}
