//! Whole-session conformance (spec/Session.tla): TLC enumerates sessions
//! (construct, seed, run / run_progress calls, exports) and labels every returned cell with a
//! token <<kind, seed, chain, transitions, history>>.  The harness executes each session on a
//! real sampler and checks that the token -> value map is a FUNCTION across all sessions of a
//! group: equal tokens must be bit-equal values.  That single relation carries determinism,
//! progress = run, continuation across calls, chain order and burn-in offsets at once.
//! Exports of an output are written with the real save_* functions and read back.
use crate::util::*;
use burn::backend::{Autodiff, NdArray};
use mini_mcmc::core::{init_with_seed, ChainRunner};
use mini_mcmc::distributions::{Conditional, DiffableGaussian2D, Gaussian2D, IsotropicGaussian, Proposal};
use mini_mcmc::gibbs::GibbsSampler;
use mini_mcmc::hmc::HMC;
use mini_mcmc::metropolis_hastings::MetropolisHastings;
use mini_mcmc::nuts::NUTS;
use ndarray::{arr1, arr2, Array3};
use rand::rngs::SmallRng;
use rand::{Rng, SeedableRng};
use serde_json::{json, Value};
use std::collections::HashMap;

type B32 = Autodiff<NdArray<f32>>;

#[derive(Clone)]
struct SeededCond {
    rng: SmallRng,
}
impl Conditional<f64> for SeededCond {
    fn sample(&mut self, i: usize, given: &[f64]) -> f64 {
        let z: f64 = self.rng.random();
        0.5 * given[(i + 1) % given.len()] + z
    }
}

/// one call's output as [chain][draw][dim] of f64 (exact images of the sampler's values)
type Out = Vec<Vec<Vec<f64>>>;
fn from_arr(a: &Array3<f64>) -> Out {
    (0..a.shape()[0]).map(|c| (0..a.shape()[1]).map(|j| (0..a.shape()[2]).map(|d| a[[c, j, d]]).collect()).collect()).collect()
}
fn from_tensor(t: burn::tensor::Tensor<B32, 3>) -> Out {
    let dims = t.dims();
    let v = t.into_data().convert::<f64>().to_vec::<f64>().unwrap();
    (0..dims[0]).map(|c| (0..dims[1]).map(|j| (0..dims[2]).map(|d| v[(c * dims[1] + j) * dims[2] + d]).collect()).collect()).collect()
}

fn execute(s: &Value) -> Result<Vec<Out>, String> {
    let kind = s["kind"].as_str().unwrap();
    let n = s["n"].as_u64().unwrap() as usize;
    let seed = s["seed"].as_u64().unwrap();
    let calls: Vec<(usize, usize, bool)> = s["calls"].as_array().unwrap().iter()
        .map(|c| (c["nc"].as_u64().unwrap() as usize, c["nd"].as_u64().unwrap() as usize, c["progress"].as_bool().unwrap())).collect();
    catch(|| {
        let mut outs = vec![];
        match kind {
            "MH" => {
                let target = Gaussian2D::<f64> { mean: arr1(&[0.0, 0.5]), cov: arr2(&[[1.0, 0.3], [0.3, 2.0]]) };
                let mut smp = MetropolisHastings::new(target, IsotropicGaussian::<f64>::new(0.8).set_seed(999), init_with_seed(n, 2, 7)).seed(seed);
                for (nc, nd, p) in &calls {
                    let a = if *p { smp.run_progress(*nc, *nd).unwrap().0 } else { smp.run(*nc, *nd).unwrap() };
                    outs.push(from_arr(&a));
                }
            }
            "Gibbs" => {
                let mut smp = GibbsSampler::new(SeededCond { rng: SmallRng::seed_from_u64(5) }, init_with_seed(n, 3, 7)).set_seed(seed);
                for (nc, nd, p) in &calls {
                    let a = if *p { smp.run_progress(*nc, *nd).unwrap().0 } else { smp.run(*nc, *nd).unwrap() };
                    outs.push(from_arr(&a));
                }
            }
            "HMC" => {
                let target = DiffableGaussian2D::<f32>::new([0.0, 1.0], [[1.5, 0.4], [0.4, 1.0]]);
                let mut smp = HMC::<f32, B32, _>::new(target, init_with_seed(n, 2, 7), 0.15, 4).set_seed(seed);
                for (nc, nd, p) in &calls {
                    let t = if *p { smp.run_progress(*nc, *nd).unwrap().0 } else { smp.run(*nc, *nd) };
                    outs.push(from_tensor(t));
                }
            }
            "NUTS" => {
                let target = DiffableGaussian2D::<f32>::new([0.0, 1.0], [[1.5, 0.4], [0.4, 1.0]]);
                let mut smp = NUTS::<f32, B32, _>::new(target, init_with_seed(n, 2, 7), 0.8).set_seed(seed);
                for (nc, nd, p) in &calls {
                    let t = if *p { smp.run_progress(*nc, *nd).unwrap().0 } else { smp.run(*nc, *nd) };
                    outs.push(from_tensor(t));
                }
            }
            k => tool_error(&format!("kind {k}")),
        }
        outs
    })
}

fn export_roundtrip(out: &Out, rows: &Value, dir: &str, tag: usize) -> Option<String> {
    // chain-major table of the output through save_csv and save_parquet (array entry points)
    let (n, nc) = (out.len(), out.first().map(|c| c.len()).unwrap_or(0));
    let dim = out.first().and_then(|c| c.first()).map(|r| r.len()).unwrap_or(0);
    let arr = Array3::from_shape_fn((n, nc, dim), |(c, j, d)| out[c][j][d]);
    let path = format!("{dir}/session_{tag}.csv");
    if let Err(e) = mini_mcmc::io::csv::save_csv(&arr, &path) {
        return Some(format!("save_csv failed: {e}"));
    }
    let mut rdr = match csv::Reader::from_path(&path) { Ok(r) => r, Err(e) => return Some(format!("read back: {e}")) };
    let recs: Vec<csv::StringRecord> = rdr.records().filter_map(|r| r.ok()).collect();
    let want = rows.as_array().unwrap();
    if recs.len() != want.len() {
        return Some(format!("{} rows in the file, the specification's table has {}", recs.len(), want.len()));
    }
    for (r, w) in recs.iter().zip(want) {
        let (c, j) = (w["chain"].as_u64().unwrap() as usize, w["obs"].as_u64().unwrap() as usize);
        if r.get(0) != Some(&c.to_string()) || r.get(1) != Some(&j.to_string()) {
            return Some(format!("row labelled ({:?},{:?}), expected ({c},{j})", r.get(0), r.get(1)));
        }
        for d in 0..dim {
            let v: f64 = r.get(2 + d).and_then(|s| s.parse().ok()).unwrap_or(f64::NAN);
            if v.to_bits() != out[c][j][d].to_bits() {
                return Some(format!("cell ({c},{j}) dim_{d} = {v}, the returned draw was {}", out[c][j][d]));
            }
        }
    }
    let _ = std::fs::remove_file(&path);
    None
}

pub fn replay(args: &[String]) {
    let sessions = read_ndjson(&args[0]);
    let dir = arg(args, "--dir").unwrap().to_string();
    std::fs::create_dir_all(&dir).unwrap();
    let mut table: HashMap<String, (Vec<u64>, String)> = HashMap::new();
    let mut bad = vec![];
    let (mut evals, mut cells, mut shared) = (0u64, 0u64, 0u64);
    for (si, s) in sessions.iter().enumerate() {
        let desc = format!("{} n={} seed={} calls={}", s["kind"], s["n"], s["seed"],
            s["calls"].as_array().unwrap().iter().map(|c| format!("({},{},{})", c["nc"], c["nd"], if c["progress"].as_bool().unwrap() { "progress" } else { "run" })).collect::<Vec<_>>().join(""));
        evals += 1;
        let outs = match execute(s) {
            Ok(o) => o,
            Err(p) => {
                bad.push(json!({"session": desc, "why": format!("panic: {p}")}));
                continue;
            }
        };
        for (k, call) in s["calls"].as_array().unwrap().iter().enumerate() {
            let rows = call["rows"].as_array().unwrap();
            let nc = call["nc"].as_u64().unwrap() as usize;
            let out = &outs[k];
            if out.len() != rows.len() || out.iter().any(|c| c.len() != nc) {
                bad.push(json!({"session": desc, "why": format!("call {k}: shape [{}, {:?}], expected [{}, {nc}]", out.len(), out.first().map(|c| c.len()), rows.len())}));
                continue;
            }
            for (c, chain_rows) in rows.iter().enumerate() {
                for (j, tok) in chain_rows.as_array().unwrap().iter().enumerate() {
                    let key = tok.to_string();
                    let bits: Vec<u64> = out[c][j].iter().map(|v| v.to_bits()).collect();
                    cells += 1;
                    match table.get(&key) {
                        None => {
                            table.insert(key, (bits, desc.clone()));
                        }
                        Some((b, other)) => {
                            shared += 1;
                            if *b != bits && bad.len() < 25 {
                                bad.push(json!({"session": desc, "other_session": other, "token": tok,
                                    "why": format!("call {k}, chain {c}, draw {j}: value {:?} differs from the value {:?} the same state had in the other session",
                                        out[c][j], b.iter().map(|x| f64::from_bits(*x)).collect::<Vec<_>>())}));
                            }
                        }
                    }
                }
            }
        }
        for f in s["files"].as_array().unwrap() {
            let k = f["of"].as_u64().unwrap() as usize - 1;
            if let Some(w) = export_roundtrip(&outs[k], &f["rows"], &dir, si) {
                bad.push(json!({"session": desc, "why": format!("export of call {k}: {w}")}));
            }
        }
    }
    println!("{}", json!({"summary": true, "sessions": sessions.len(), "evaluations": evals, "cells": cells, "cells_shared_between_sessions": shared, "bad": bad}));
}
