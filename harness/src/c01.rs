//! C01 — Metropolis-Hastings acceptance rule.
//! replay: every case TLC enumerated from spec/MH.tla is executed as one real
//!         `MHMarkovChain::step()` (table-backed user Target/Proposal, crafted acceptance draw).
//! record: random finite-state chains; one event per step for spec/Trace_MH.tla.
use crate::util::*;
use mini_mcmc::core::MarkovChain;
use mini_mcmc::distributions::{Proposal, Target};
use mini_mcmc::metropolis_hastings::MHMarkovChain;
use num_traits::Float;
use rand::rngs::SmallRng;
use rand::{Rng, SeedableRng};
use serde_json::{json, Value};
use std::sync::{Arc, Mutex};

pub trait Sid: Clone + PartialEq + num_traits::Zero + std::fmt::Debug + 'static {
    const NAME: &'static str;
    fn from_id(i: usize) -> Self;
    fn to_id(&self) -> usize;
    fn bits(&self) -> u64;
    /// a second coordinate carried along to check "unchanged bit for bit"
    fn payload(k: usize) -> Self;
}
impl Sid for usize {
    const NAME: &'static str = "usize";
    fn from_id(i: usize) -> Self { i }
    fn to_id(&self) -> usize { *self }
    fn bits(&self) -> u64 { *self as u64 }
    fn payload(k: usize) -> Self { usize::MAX - k }
}
impl Sid for i32 {
    const NAME: &'static str = "i32";
    fn from_id(i: usize) -> Self { i as i32 }
    fn to_id(&self) -> usize { *self as usize }
    fn bits(&self) -> u64 { *self as u32 as u64 }
    fn payload(k: usize) -> Self { i32::MIN + k as i32 }
}
impl Sid for f32 {
    const NAME: &'static str = "f32";
    fn from_id(i: usize) -> Self { i as f32 }
    fn to_id(&self) -> usize { *self as usize }
    fn bits(&self) -> u64 { self.to_bits() as u64 }
    fn payload(k: usize) -> Self { if k == 0 { -0.0 } else { f32::from_bits(0x7fc0_0001) } }
}
impl Sid for f64 {
    const NAME: &'static str = "f64";
    fn from_id(i: usize) -> Self { i as f64 }
    fn to_id(&self) -> usize { *self as usize }
    fn bits(&self) -> u64 { self.to_bits() }
    fn payload(k: usize) -> Self { if k == 0 { -0.0 } else { f64::from_bits(0x7ff8_0000_0000_0001) } }
}

#[derive(Clone)]
struct TabTarget<F> {
    lp: Vec<F>,
}
impl<S: Sid, F: Float> Target<S, F> for TabTarget<F> {
    fn unnorm_logp(&self, p: &[S]) -> F {
        self.lp[p[0].to_id()]
    }
}
#[derive(Clone)]
struct ScriptProp<S, F> {
    y: Vec<S>,
    lq: Vec<Vec<F>>,
}
impl<S: Sid, F: Float> Proposal<S, F> for ScriptProp<S, F> {
    fn sample(&mut self, _cur: &[S]) -> Vec<S> {
        self.y.clone()
    }
    fn logp(&self, from: &[S], to: &[S]) -> F {
        self.lq[from[0].to_id()][to[0].to_id()]
    }
    fn set_seed(self, _seed: u64) -> Self {
        self
    }
}

/// u-class -> the u64 the generator must return next (same word serves f32 and f64).
fn u_word(j: i64) -> u64 {
    match j {
        -1 => 0,
        0 => u64::MAX,
        j => 1u64 << (64 - j),
    }
}

fn run_case<S: Sid, F: Float + std::fmt::Debug>(c: &Value, stats: &mut Stats)
where
    rand_distr::StandardUniform: rand_distr::Distribution<F>,
{
    let cv = |k: &str| F::from(ext_to_f64(&c[k], 0.001)).unwrap();
    let (lpx, lpy, lqf, lqb) = (cv("lpx"), cv("lpy"), cv("lqf"), cv("lqb"));
    let j = c["u"].as_i64().unwrap();
    let target = TabTarget { lp: vec![lpx, lpy] };
    // the state is a Vec of any length: candidates shorter / longer than the current state are ordinary inputs
    let shape = (j.unsigned_abs() as usize + c["lpx"]["k"].as_str().map(|k| k.len()).unwrap_or(0) + c["lqb"]["k"].as_str().map(|k| k.len()).unwrap_or(0)) % 3;
    let mut x = vec![S::from_id(0), S::payload(0)];
    let mut y = vec![S::from_id(1), S::payload(1)];
    if shape == 1 {
        x.extend([S::payload(1), S::payload(0), S::from_id(0)]);
    } else if shape == 2 {
        y.extend([S::payload(0), S::from_id(1)]);
    }
    let z = F::zero();
    let prop = ScriptProp { y: y.clone(), lq: vec![vec![z, lqf], vec![lqb, z]] };
    let mut chain = MHMarkovChain::new(target, prop, x.clone());
    chain.rng = crafted_rng(u_word(j));
    // the injection itself is part of the trusted base: check it
    let u: F = chain.rng.clone().random();
    let want = match j {
        -1 => F::zero(),
        0 => F::one() - F::epsilon() / F::from(2.0).unwrap(),
        j => F::from(2.0).unwrap().powi(-(j as i32)),
    };
    if u != want {
        tool_error(&format!("crafted generator gave {u:?}, wanted {want:?}"));
    }
    let res = catch(|| {
        let r: Vec<S> = chain.step().clone();
        r
    });
    stats.evals += 1;
    let exp_acc = c["acc"].as_bool().unwrap();
    let expect = if exp_acc { &y } else { &x };
    let obs_desc;
    let ok = match &res {
        Ok(ret) => {
            let same = |a: &Vec<S>, b: &Vec<S>| a.len() == b.len() && a.iter().zip(b).all(|(p, q)| p.bits() == q.bits());
            obs_desc = format!("{:?}", chain.current_state);
            same(&chain.current_state, expect) && same(ret, expect)
        }
        Err(e) => {
            obs_desc = format!("panic: {e}");
            false
        }
    };
    if exp_acc {
        stats.moved += 1;
    }
    if !ok && stats.mismatches.len() < 25 {
        stats.mismatches.push(json!({"case": c, "types": format!("S={},F={}", S::NAME, std::any::type_name::<F>()),
            "expected_state": format!("{:?}", expect), "observed": obs_desc}));
    }
    if !ok {
        stats.bad += 1;
    }
}

#[derive(Default)]
struct Stats {
    evals: u64,
    moved: u64,
    bad: u64,
    mismatches: Vec<Value>,
}

pub fn replay(args: &[String]) {
    let cases = read_ndjson(&args[0]);
    let mut st = Stats::default();
    for c in &cases {
        run_case::<usize, f64>(c, &mut st);
        run_case::<i32, f32>(c, &mut st);
        run_case::<f32, f32>(c, &mut st);
        run_case::<f64, f64>(c, &mut st);
        run_case::<f64, f32>(c, &mut st);
    }
    println!("{}", json!({"summary": true, "cases": cases.len(), "evaluations": st.evals, "accepting": st.moved,
        "bad": st.bad, "mismatches": st.mismatches}));
}

// ------------------------------------------------------------------ record
/// The state vector that stands for state id z: its length depends on z (2, 3 or 4 entries).
fn state_of<S: Sid>(z: usize) -> Vec<S> {
    let mut v = vec![S::from_id(z), S::payload(z % 2)];
    for k in 0..(z % 3) {
        v.push(S::payload((z + k) % 2));
    }
    v
}

#[derive(Clone)]
struct WTarget {
    w: Vec<u32>,
}
impl<S: Sid, F: Float> Target<S, F> for WTarget {
    fn unnorm_logp(&self, p: &[S]) -> F {
        F::from(self.w[p[0].to_id()]).unwrap().ln()
    }
}
#[derive(Clone)]
struct TabProp {
    num: Vec<Vec<u32>>, // num[from][to], each row sums to D
    d: u32,
    rng: SmallRng,
    last: Arc<Mutex<Option<usize>>>,
}
impl<S: Sid, F: Float> Proposal<S, F> for TabProp {
    fn sample(&mut self, cur: &[S]) -> Vec<S> {
        let row = &self.num[cur[0].to_id()];
        let r = self.rng.random_range(0..self.d);
        let mut acc = 0;
        let mut y = row.len() - 1;
        for (i, &n) in row.iter().enumerate() {
            acc += n;
            if r < acc {
                y = i;
                break;
            }
        }
        *self.last.lock().unwrap() = Some(y);
        state_of::<S>(y)
    }
    fn logp(&self, from: &[S], to: &[S]) -> F {
        (F::from(self.num[from[0].to_id()][to[0].to_id()]).unwrap() / F::from(self.d).unwrap()).ln()
    }
    fn set_seed(mut self, seed: u64) -> Self {
        self.rng = SmallRng::seed_from_u64(seed);
        self
    }
}

fn record_chain<S: Sid, F: Float + std::fmt::Debug + Into<f64>>(seed: u64, steps: usize, out: &mut NdjsonOut, moved: &mut u64)
where
    rand_distr::StandardUniform: rand_distr::Distribution<F>,
{
    let mut g = SmallRng::seed_from_u64(seed);
    let n = g.random_range(2..=6usize);
    let d = 8u32;
    let mut w: Vec<u32> = (0..n).map(|_| if g.random_range(0..4) == 0 { 0 } else { g.random_range(1..=8) }).collect();
    let start = g.random_range(0..n);
    if w[start] == 0 {
        w[start] = 3;
    }
    let num: Vec<Vec<u32>> = (0..n)
        .map(|_| {
            let mut row = vec![0u32; n];
            for _ in 0..d {
                // skewed: some cells stay zero => zero-probability reverse moves exist
                let k = if g.random_range(0..3) == 0 { g.random_range(0..n) } else { g.random_range(0..n.min(3)) };
                row[k] += 1;
            }
            row
        })
        .collect();
    let last = Arc::new(Mutex::new(None));
    let prop = TabProp { num: num.clone(), d, rng: SmallRng::seed_from_u64(seed ^ 0xABCD), last: last.clone() };
    let x0 = state_of::<S>(start);
    let mut chain = MHMarkovChain::new(WTarget { w: w.clone() }, prop, x0);
    chain.rng = SmallRng::seed_from_u64(seed.wrapping_mul(3) + 1);
    out.push(&json!({"e": "init", "x": start, "wx": w[start], "types": format!("{}/{}", S::NAME, std::any::type_name::<F>())}));
    for _ in 0..steps {
        // now and then the caller repositions the chain through its public field (re-initialisation, tempering ...):
        // the next step must be decided by the density of the state the chain is at NOW
        if g.random_range(0..6) == 0 {
            let pos: Vec<usize> = (0..n).filter(|i| w[*i] > 0).collect();
            let z = pos[g.random_range(0..pos.len())];
            chain.current_state = state_of::<S>(z);
            out.push(&json!({"e": "set", "x": z, "wx": w[z]}));
        }
        let x = chain.current_state[0].to_id();
        let before: Vec<u64> = chain.current_state.iter().map(|s| s.bits()).collect();
        let u: F = chain.rng.clone().random();
        let res = catch(|| {
            chain.step();
        });
        if let Err(e) = res {
            out.push(&json!({"e": "panic", "msg": e}));
            return;
        }
        let y = last.lock().unwrap().take().unwrap_or(usize::MAX);
        let xn = chain.current_state[0].to_id();
        let after: Vec<u64> = chain.current_state.iter().map(|s| s.bits()).collect();
        let u64v: f64 = u.into();
        let uq = (u64v * 1048576.0).floor() as i64;
        // "kept": when the state id did not change the whole vector must be bit-identical,
        // when it changed it must be the proposed vector
        // "kept": bit-identical to the state before; "moved": exactly the proposed vector (also its length)
        let want: Vec<u64> = state_of::<S>(xn).iter().map(|s| s.bits()).collect();
        let intact = if xn == x && y != x { after == before } else { after == want };
        if xn != x {
            *moved += 1;
        }
        out.push(&json!({"e": "step", "x": x, "y": y, "wx": w[x], "wy": if y < n { w[y] } else { 0 },
            "qf": if y < n { num[x][y] } else { 0 }, "qb": if y < n { num[y][x] } else { 0 },
            "uq": uq, "uz": u64v == 0.0, "xn": xn, "intact": intact}));
    }
}

pub fn record(args: &[String]) {
    let seed = arg_u64(args, "--seed", 1);
    let chains = arg_u64(args, "--chains", 8);
    let steps = arg_u64(args, "--steps", 500) as usize;
    let mut out = NdjsonOut::create(arg(args, "--out").unwrap());
    let mut s = seed;
    let mut moved = 0u64;
    for c in 0..chains {
        let cs = splitmix(&mut s);
        match c % 4 {
            0 => record_chain::<usize, f64>(cs, steps, &mut out, &mut moved),
            1 => record_chain::<i32, f32>(cs, steps, &mut out, &mut moved),
            2 => record_chain::<f64, f64>(cs, steps, &mut out, &mut moved),
            _ => record_chain::<f32, f32>(cs, steps, &mut out, &mut moved),
        }
    }
    let n = out.finish();
    println!("{}", json!({"summary": true, "events": n, "moved": moved}));
}
