//! C05 — Gibbs sweep.  A recording/scripted `Conditional` observes every call the real
//! `GibbsMarkovChain::step` makes.  Values are opaque tokens bound to adversarial bit patterns.
use crate::util::*;
use mini_mcmc::core::{ChainRunner, MarkovChain};
use mini_mcmc::distributions::Conditional;
use mini_mcmc::gibbs::{GibbsMarkovChain, GibbsSampler};
use serde_json::{json, Value};
use std::sync::{Arc, Mutex};

pub trait Tok: ndarray::LinalgScalar + PartialEq + Send + Sync + std::fmt::Debug {
    const NAME: &'static str;
    fn table() -> Vec<Self>;
    fn bits(&self) -> u64;
    fn tok(&self) -> i64 {
        Self::table().iter().position(|t| t.bits() == self.bits()).map(|p| p as i64).unwrap_or(-1)
    }
    fn of(t: usize) -> Self {
        Self::table()[t]
    }
}
impl Tok for f64 {
    const NAME: &'static str = "f64";
    fn table() -> Vec<Self> {
        vec![0.0, 1.0, -0.0, f64::NAN, f64::INFINITY, f64::NEG_INFINITY, 5e-324, f64::MAX, 2.5, -3.0]
    }
    fn bits(&self) -> u64 { self.to_bits() }
}
impl Tok for f32 {
    const NAME: &'static str = "f32";
    fn table() -> Vec<Self> {
        vec![0.0, 1.0, -0.0, f32::NAN, f32::INFINITY, f32::NEG_INFINITY, 1e-45, f32::MAX, 2.5, -3.0]
    }
    fn bits(&self) -> u64 { self.to_bits() as u64 }
}
impl Tok for i32 {
    const NAME: &'static str = "i32";
    fn table() -> Vec<Self> { vec![0, 1, -1, i32::MAX, i32::MIN, 7, 8, 9, 10, 11] }
    fn bits(&self) -> u64 { *self as u32 as u64 }
}
impl Tok for usize {
    const NAME: &'static str = "usize";
    fn table() -> Vec<Self> { vec![0, 1, 2, usize::MAX, 4, 5, 6, 7, 8, 9] }
    fn bits(&self) -> u64 { *self as u64 }
}

type Log = Arc<Mutex<Vec<Value>>>;

/// Returns scripted tokens when `script` is non-empty, otherwise a deterministic pseudo-random
/// token depending on (index, call counter).  Logs every call.
#[derive(Clone)]
struct RecCond<S> {
    log: Log,
    script: Arc<Mutex<std::collections::VecDeque<usize>>>,
    counter: u64,
    salt: u64,
    _p: std::marker::PhantomData<S>,
}
impl<S: Tok> Conditional<S> for RecCond<S> {
    fn sample(&mut self, index: usize, given: &[S]) -> S {
        let t = match self.script.lock().unwrap().pop_front() {
            Some(t) => t,
            None => {
                self.counter += 1;
                let mut s = self.salt ^ self.counter.wrapping_mul(0x9E37) ^ (index as u64) << 32;
                (splitmix(&mut s) % 10) as usize
            }
        };
        let r = S::of(t);
        self.log.lock().unwrap().push(json!({"e": "call", "i": index,
            "given": given.iter().map(|g| g.tok()).collect::<Vec<_>>(), "ret": r.tok()}));
        r
    }
}
fn new_cond<S: Tok>(log: &Log, script: Vec<usize>, salt: u64) -> RecCond<S> {
    RecCond { log: log.clone(), script: Arc::new(Mutex::new(script.into())), counter: 0, salt, _p: Default::default() }
}

fn replay_one<S: Tok>(b: &Value, bad: &mut Vec<Value>, evals: &mut u64) {
    let dim = b["dim"].as_u64().unwrap() as usize;
    let sweeps = b["sweeps"].as_u64().unwrap() as usize;
    let script: Vec<usize> = b["script"].as_array().unwrap().iter().map(|v| v.as_u64().unwrap() as usize).collect();
    let want: Vec<i64> = b["final"].as_array().unwrap().iter().map(|v| v.as_i64().unwrap()).collect();
    let log: Log = Default::default();
    let init: Vec<S> = vec![S::of(9); dim];
    // `current_state` is a public field: every second behaviour is replayed on a chain that was built somewhere else, has made one
    // throw-away sweep there (dim extra script entries, log cleared afterwards) and is then put on the behaviour's start by
    // assignment -- the conditional must be handed the state the chain is in NOW
    static MOVED: std::sync::atomic::AtomicUsize = std::sync::atomic::AtomicUsize::new(0);
    let moved = MOVED.fetch_add(1, std::sync::atomic::Ordering::Relaxed) % 2 == 1;
    let mut chain = if moved {
        let mut pre: Vec<usize> = (0..dim).map(|k| (k + 3) % 10).collect();
        pre.extend(script.iter().cloned());
        let elsewhere: Vec<S> = vec![S::of(4); dim];
        let mut ch = GibbsMarkovChain::new(new_cond::<S>(&log, pre, 0), &elsewhere);
        let _ = catch(|| { ch.step(); });
        log.lock().unwrap().clear();
        ch.current_state = init.clone();
        ch
    } else {
        GibbsMarkovChain::new(new_cond::<S>(&log, script.clone(), 0), &init)
    };
    // sweep counts after which MC_Gibbs!Assign put the chain on <<7, ..., 7>> (a public-field assignment between sweeps)
    let assigns: Vec<usize> = b["assigns"].as_array().map(|a| a.iter().map(|v| v.as_u64().unwrap() as usize).collect()).unwrap_or_default();
    let r = catch(|| {
        for k in 0..sweeps {
            if assigns.contains(&k) {
                chain.current_state = vec![S::of(7); dim];
            }
            chain.step();
        }
    });
    *evals += 1;
    let got: Vec<i64> = chain.current_state.iter().map(|x| x.tok()).collect();
    // expected call sequence, derived from the script exactly as Gibbs.tla does
    let calls = log.lock().unwrap().clone();
    let mut st: Vec<i64> = vec![9; dim];
    let mut ok = r.is_ok() && got == want && calls.len() == script.len();
    if ok {
        for (k, c) in calls.iter().enumerate() {
            let i = k % dim;
            if i == 0 && assigns.contains(&(k / dim)) {
                st = vec![7; dim];
            }
            let given: Vec<i64> = c["given"].as_array().unwrap().iter().map(|v| v.as_i64().unwrap()).collect();
            if c["i"].as_u64().unwrap() as usize != i || given != st {
                ok = false;
                break;
            }
            st[i] = script[k] as i64;
        }
    }
    if !ok && bad.len() < 20 {
        bad.push(json!({"behaviour": b, "type": S::NAME, "observed_final": got, "observed_calls": calls, "panic": r.err()}));
    }
}

pub fn replay(args: &[String]) {
    let bs = read_ndjson(&args[0]);
    let mut bad = vec![];
    let mut evals = 0;
    for b in &bs {
        replay_one::<f64>(b, &mut bad, &mut evals);
        replay_one::<f32>(b, &mut bad, &mut evals);
        replay_one::<i32>(b, &mut bad, &mut evals);
        replay_one::<usize>(b, &mut bad, &mut evals);
    }
    println!("{}", json!({"summary": true, "evaluations": evals, "bad": bad.len(), "mismatches": bad}));
}

fn record_chain<S: Tok>(seed: u64, dim: usize, steps: usize, out: &mut NdjsonOut) {
    let log: Log = Default::default();
    let mut s = seed;
    let init: Vec<S> = (0..dim).map(|_| S::of((splitmix(&mut s) % 10) as usize)).collect();
    let mut chain = GibbsMarkovChain::new(new_cond::<S>(&log, vec![], seed), &init);
    out.push(&json!({"e": "init", "type": S::NAME, "state": init.iter().map(|x| x.tok()).collect::<Vec<_>>()}));
    for _ in 0..steps {
        let r = catch(|| chain.step().clone());
        for c in log.lock().unwrap().drain(..) {
            out.push(&c);
        }
        match r {
            Ok(ret) => {
                let a: Vec<i64> = ret.iter().map(|x| x.tok()).collect();
                let b: Vec<i64> = chain.current_state().iter().map(|x| x.tok()).collect();
                out.push(&json!({"e": "end", "state": if a == b { a } else { vec![-2] }}));
            }
            Err(e) => {
                out.push(&json!({"e": "panic", "msg": e}));
                return;
            }
        }
    }
}

/// A whole sampler run through `ChainRunner::run`: chains on rayon threads; per-chain logs.
fn record_sampler<S: Tok + PartialEq + num_traits::ToPrimitive>(seed: u64, n_chains: usize, dim: usize, steps: usize, out: &mut NdjsonOut) {
    let mut s = seed;
    let inits: Vec<Vec<S>> = (0..n_chains).map(|_| (0..dim).map(|_| S::of((splitmix(&mut s) % 10) as usize)).collect()).collect();
    let logs: Vec<Log> = (0..n_chains).map(|_| Default::default()).collect();
    let dummy: Log = Default::default();
    let mut sampler = GibbsSampler::new(new_cond::<S>(&dummy, vec![], seed), inits.clone());
    for (c, chain) in sampler.chains.iter_mut().enumerate() {
        chain.target = new_cond::<S>(&logs[c], vec![], seed + c as u64);
    }
    // two calls on the same sampler: the chains keep their own (stateful) conditionals across calls
    // burn-in lengths: odd and even, dimension odd and even (a separate burn-in path must not ask more or fewer questions)
    let (nd1, nd2) = (5usize, 2usize);
    let r = catch(|| {
        let first = sampler.run(steps - steps / 2, nd1);
        let second = sampler.run(steps / 2, nd2);
        match (first, second) {
            (Ok(a), Ok(b)) => ndarray::concatenate(ndarray::Axis(1), &[a.view(), b.view()]).map_err(|e| e.to_string()),
            (a, b) => Err(format!("{:?} {:?}", a.err(), b.err())),
        }
    });
    for c in 0..n_chains {
        out.push(&json!({"e": "init", "type": S::NAME, "state": inits[c].iter().map(|x| x.tok()).collect::<Vec<_>>()}));
        let calls = logs[c].lock().unwrap().clone();
        for (k, ev) in calls.iter().enumerate() {
            out.push(ev);
            if (k + 1) % dim == 0 {
                // sweeps nd1 .. of the first call and nd2 .. of the second are collected; the others are burn-in
                let sweep = k / dim;
                let n1 = steps - steps / 2;
                let row = if sweep < nd1 { None } else if sweep < nd1 + n1 { Some(sweep - nd1) }
                    else if sweep < nd1 + n1 + nd2 { None } else { Some(sweep - nd1 - nd2) };
                match (row, &r) {
                    (Some(row), Ok(Ok(sample))) if row < sample.shape()[1] => {
                        // state after this sweep as returned in the sample array
                        let st: Vec<i64> = (0..dim).map(|d| sample[[c, row, d]].tok()).collect();
                        out.push(&json!({"e": "end", "state": st}));
                    }
                    _ => out.push(&json!({"e": "endb"})),
                }
            }
        }
        out.push(&json!({"e": "ran", "sweeps": steps + nd1 + nd2}));
    }
    if let Err(e) = r {
        out.push(&json!({"e": "panic", "msg": e}));
    }
}

pub fn record(args: &[String]) {
    let seed = arg_u64(args, "--seed", 1);
    let n = arg_u64(args, "--chains", 8) as usize;
    let steps = arg_u64(args, "--steps", 20) as usize;
    let maxdim = arg_u64(args, "--maxdim", 64) as usize;
    let mut out = NdjsonOut::create(arg(args, "--out").unwrap());
    let mut s = seed;
    for c in 0..n {
        let cs = splitmix(&mut s);
        let dim = match c {
            0 => 1,
            1 => maxdim,
            _ => 1 + (splitmix(&mut s) as usize % maxdim),
        };
        match c % 4 {
            0 => record_chain::<f64>(cs, dim, steps, &mut out),
            1 => record_chain::<i32>(cs, dim, steps, &mut out),
            2 => record_chain::<f32>(cs, dim, steps, &mut out),
            _ => record_chain::<usize>(cs, dim, steps, &mut out),
        }
    }
    // long states of every element type, whatever the seed drew above (a sweep organised in blocks of bytes / lanes shows up
    // only past the block size): 64 eight-byte coordinates, 130 four-byte ones
    record_chain::<f64>(splitmix(&mut s), 64, steps.min(6), &mut out);
    record_chain::<usize>(splitmix(&mut s), 64, steps.min(6), &mut out);
    record_chain::<f32>(splitmix(&mut s), 130, steps.min(6), &mut out);
    record_chain::<i32>(splitmix(&mut s), 130, steps.min(6), &mut out);
    record_sampler::<f64>(splitmix(&mut s), 5, 3, steps, &mut out);
    record_sampler::<i32>(splitmix(&mut s), 8, 2, steps, &mut out);
    record_sampler::<f32>(splitmix(&mut s), 3, 5, steps.min(12), &mut out);
    let n = out.finish();
    println!("{}", json!({"summary": true, "events": n}));
}
