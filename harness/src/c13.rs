//! C13 — streaming trackers.  replay: TLC-enumerated update histories with exact expected
//! statistics; grid: collect_rhat on hand-built ChainStats; record: long histories for
//! spec/Trace_Trackers.tla.
use crate::util::*;
use mini_mcmc::stats::{collect_rhat, ChainStats, ChainTracker, MultiChainTracker};
use ndarray::Array1;
use serde_json::json;

fn fx64(x: f64, bits: u32) -> i64 {
    let v = x * (1u64 << bits) as f64;
    if v.is_nan() { -999_999 } else { v.round().clamp(-1e9, 1e9) as i64 }
}
fn fx(x: f32, bits: u32) -> i64 {
    let v = (x as f64) * (1u64 << bits) as f64;
    if v.is_nan() { -999_999 } else { v.round().clamp(-1e9, 1e9) as i64 }
}

pub fn replay(args: &[String]) {
    let cases = read_ndjson(&args[0]);
    let mut bad = vec![];
    let (mut evals, mut rhat_checked) = (0u64, 0u64);
    for c in &cases {
        let hist: Vec<Vec<Vec<i64>>> = serde_json::from_value(c["hist"].clone()).unwrap(); // [round][chain][param]
        let n = hist.len();
        let nc = hist[0].len();
        let np = hist[0][0].len();
        let s: Vec<Vec<i64>> = serde_json::from_value(c["s"].clone()).unwrap();
        let q: Vec<Vec<i64>> = serde_json::from_value(c["q"].clone()).unwrap();
        let r = catch(|| {
            let mut trackers: Vec<ChainTracker> = (0..nc).map(|_| ChainTracker::new(np, &vec![0i32; np])).collect();
            let mut multi = MultiChainTracker::new(nc, np);
            for round in &hist {
                for (ci, st) in round.iter().enumerate() {
                    let x: Vec<i32> = st.iter().map(|v| *v as i32).collect();
                    trackers[ci].step(&x).unwrap();
                }
                let flat: Vec<f32> = round.iter().flatten().map(|v| *v as f32).collect();
                multi.step(&flat).unwrap();
            }
            let stats: Vec<ChainStats> = trackers.iter().map(|t| t.stats()).collect();
            let refs: Vec<&ChainStats> = stats.iter().collect();
            let cr = collect_rhat(&refs);
            let mr = multi.rhat().unwrap();
            (stats, cr, mr)
        });
        evals += 1;
        let (stats, cr, mr) = match r {
            Ok(x) => x,
            Err(e) => {
                bad.push(json!({"hist": c["hist"], "panic": e}));
                continue;
            }
        };
        let nf = n as f64;
        let mut why = vec![];
        for ci in 0..nc {
            if stats[ci].n != n as u64 {
                why.push(format!("chain {ci}: n={} expected {n}", stats[ci].n));
            }
            for k in 0..np {
                let mean = s[ci][k] as f64 / nf;
                let var = (nf * q[ci][k] as f64 - (s[ci][k] * s[ci][k]) as f64) / (nf * (nf - 1.0));
                if (stats[ci].mean[k] as f64 - mean).abs() > 1e-5 {
                    why.push(format!("chain {ci} param {k}: mean {} expected {mean}", stats[ci].mean[k]));
                }
                if (stats[ci].sm2[k] as f64 - var).abs() > 1e-4 {
                    why.push(format!("chain {ci} param {k}: variance {} expected {var}", stats[ci].sm2[k]));
                }
            }
        }
        for k in 0..np {
            if c["wn"][k].as_i64().unwrap() > 0 {
                let e = c["rn"][k].as_i64().unwrap() as f64 / c["rd"][k].as_i64().unwrap() as f64;
                rhat_checked += 1;
                for (name, v) in [("collect_rhat", cr[k]), ("MultiChainTracker::rhat", mr[k])] {
                    let r2 = (v as f64).powi(2);
                    if (r2 - e).abs() > 1e-4 * e.max(1.0) {
                        why.push(format!("param {k}: {name} = {v} (squared {r2}), expected squared {e}"));
                    }
                }
            }
        }
        // the same history lived away from the origin: variances and R-hat do not depend on the location
        // (4000 as f32 values; 1e9 as f64 / i64 values -- the element type is the caller's, the narrowing to f32 the tracker's)
        for big in [false, true] {
        let offs: i64 = if big { 1_000_000_000 } else { 4000 };
        let shifted = catch(|| {
            let mut trackers: Vec<ChainTracker> = (0..nc).map(|_| ChainTracker::new(np, &vec![offs; np])).collect();
            let mut multi = MultiChainTracker::new(nc, np);
            for round in &hist {
                for (ci, st) in round.iter().enumerate() {
                    if big && ci % 2 == 1 {
                        let x: Vec<i64> = st.iter().map(|v| *v + offs).collect();
                        trackers[ci].step(&x).unwrap();
                    } else {
                        let x: Vec<f64> = st.iter().map(|v| (*v + offs) as f64).collect();
                        trackers[ci].step(&x).unwrap();
                    }
                }
                if big {
                    let flat: Vec<f64> = round.iter().flatten().map(|v| (*v + offs) as f64).collect();
                    multi.step(&flat).unwrap();
                } else {
                    let flat: Vec<f32> = round.iter().flatten().map(|v| (*v + offs) as f32).collect();
                    multi.step(&flat).unwrap();
                }
            }
            let stats: Vec<ChainStats> = trackers.iter().map(|t| t.stats()).collect();
            let refs: Vec<&ChainStats> = stats.iter().collect();
            (stats.clone(), collect_rhat(&refs), multi.rhat().unwrap())
        });
        evals += 1;
        match shifted {
            Err(e) => why.push(format!("shifted by {offs}: panic {e}")),
            Ok((stats, cr, mr)) => {
                for ci in 0..nc {
                    for k in 0..np {
                        let var = (nf * q[ci][k] as f64 - (s[ci][k] * s[ci][k]) as f64) / (nf * (nf - 1.0));
                        if !((stats[ci].sm2[k] as f64 - var).abs() <= 2e-3) {
                            why.push(format!("shifted by {offs}: chain {ci} param {k}: variance {} expected {var}", stats[ci].sm2[k]));
                        }
                    }
                }
                for k in 0..np {
                    if c["wn"][k].as_i64().unwrap() > 0 {
                        let e = c["rn"][k].as_i64().unwrap() as f64 / c["rd"][k].as_i64().unwrap() as f64;
                        for (name, v) in [("collect_rhat", cr[k]), ("MultiChainTracker::rhat", mr[k])] {
                            // ChainStats carries its means as f32 (public field): at 1e9 they cannot tell the chains apart,
                            // whatever the tracker does -- collect_rhat is compared at 4000 only
                            if big && name == "collect_rhat" {
                                continue;
                            }
                            let r2 = (v as f64).powi(2);
                            if !((r2 - e).abs() <= 4e-3 * e.max(1.0)) {
                                why.push(format!("shifted by {offs}: param {k}: {name} = {v} (squared {r2}), expected squared {e}"));
                            }
                        }
                    }
                }
            }
        }
        }
        // the same history in other units (2^-14 and 2^12: exact rescalings): means scale, variances scale with the square,
        // R-hat does not change -- "any location / scale"
        for alpha in [6.103515625e-5f64, 4096.0] {
            let scaled = catch(|| {
                let mut trackers: Vec<ChainTracker> = (0..nc).map(|_| ChainTracker::new(np, &vec![0.0f32; np])).collect();
                let mut multi = MultiChainTracker::new(nc, np);
                for round in &hist {
                    for (ci, st) in round.iter().enumerate() {
                        if ci % 2 == 1 {
                            let x: Vec<f64> = st.iter().map(|v| *v as f64 * alpha).collect();
                            trackers[ci].step(&x).unwrap();
                        } else {
                            let x: Vec<f32> = st.iter().map(|v| (*v as f64 * alpha) as f32).collect();
                            trackers[ci].step(&x).unwrap();
                        }
                    }
                    let flat: Vec<f32> = round.iter().flatten().map(|v| (*v as f64 * alpha) as f32).collect();
                    multi.step(&flat).unwrap();
                }
                let stats: Vec<ChainStats> = trackers.iter().map(|t| t.stats()).collect();
                let refs: Vec<&ChainStats> = stats.iter().collect();
                (stats.clone(), collect_rhat(&refs), multi.rhat().unwrap())
            });
            evals += 1;
            match scaled {
                Err(e) => why.push(format!("scaled by {alpha}: panic {e}")),
                Ok((stats, cr, mr)) => {
                    for ci in 0..nc {
                        for k in 0..np {
                            let mean = alpha * s[ci][k] as f64 / nf;
                            let var = alpha * alpha * (nf * q[ci][k] as f64 - (s[ci][k] * s[ci][k]) as f64) / (nf * (nf - 1.0));
                            if !((stats[ci].mean[k] as f64 - mean).abs() <= 1e-5 * alpha) {
                                why.push(format!("scaled by {alpha}: chain {ci} param {k}: mean {} expected {mean}", stats[ci].mean[k]));
                            }
                            if !((stats[ci].sm2[k] as f64 - var).abs() <= 1e-4 * alpha * alpha) {
                                why.push(format!("scaled by {alpha}: chain {ci} param {k}: variance {} expected {var}", stats[ci].sm2[k]));
                            }
                        }
                    }
                    for k in 0..np {
                        if c["wn"][k].as_i64().unwrap() > 0 {
                            let e = c["rn"][k].as_i64().unwrap() as f64 / c["rd"][k].as_i64().unwrap() as f64;
                            for (name, v) in [("collect_rhat", cr[k]), ("MultiChainTracker::rhat", mr[k])] {
                                let r2 = (v as f64).powi(2);
                                if !((r2 - e).abs() <= 1e-4 * e.max(1.0)) {
                                    why.push(format!("scaled by {alpha}: param {k}: {name} = {v} (squared {r2}), expected squared {e}"));
                                }
                            }
                        }
                    }
                }
            }
        }
        why.truncate(6);
        if !why.is_empty() && bad.len() < 20 {
            bad.push(json!({"hist": c["hist"], "why": why}));
        }
    }
    println!("{}", json!({"summary": true, "evaluations": evals, "rhat_checked": rhat_checked, "bad": bad}));
}

/// collect_rhat on hand-built ChainStats (pub fields): cases from spec/RhatGrid via TLC.
pub fn grid(args: &[String]) {
    let cases = read_ndjson(&args[0]);
    let mut bad = vec![];
    for c in &cases {
        let means: Vec<Vec<i64>> = serde_json::from_value(c["means"].clone()).unwrap(); // [chain][param]
        let vars: Vec<Vec<i64>> = serde_json::from_value(c["vars"].clone()).unwrap();
        let n = c["n"].as_u64().unwrap();
        let stats: Vec<ChainStats> = means.iter().zip(&vars).map(|(m, v)| ChainStats {
            n, p_accept: 0.5,
            mean: Array1::from_vec(m.iter().map(|x| *x as f32).collect()),
            sm2: Array1::from_vec(v.iter().map(|x| *x as f32).collect()),
        }).collect();
        let refs: Vec<&ChainStats> = stats.iter().collect();
        match catch(|| collect_rhat(&refs)) {
            Err(e) => bad.push(json!({"case": c, "panic": e})),
            Ok(r) => {
                for k in 0..means[0].len() {
                    let e = c["rn"][k].as_i64().unwrap() as f64 / c["rd"][k].as_i64().unwrap() as f64;
                    let r2 = (r[k] as f64).powi(2);
                    if (r2 - e).abs() > 1e-4 * e.max(1.0) && bad.len() < 20 {
                        bad.push(json!({"case": c, "param": k, "collect_rhat": r[k], "squared": r2, "expected_squared": e}));
                    }
                }
            }
        }
    }
    println!("{}", json!({"summary": true, "evaluations": cases.len(), "bad": bad}));
}

pub fn record(args: &[String]) {
    let seed = arg_u64(args, "--seed", 1);
    let chains = arg_u64(args, "--chains", 6);
    let steps_short = arg_u64(args, "--steps", 400) as usize;
    // the first chains get long histories (thousands of updates: weights 1/n far below any fixed cut-off)
    let steps_long = arg_u64(args, "--long-steps", steps_short as u64) as usize;
    let mut out = NdjsonOut::create(arg(args, "--out").unwrap());
    let mut s = seed;
    let mut moved = 0u64;
    for c in 0..chains {
        let steps = if c < 3 { steps_long } else { steps_short };
        let np = 1 + (splitmix(&mut s) % 4) as usize + if c == 1 { 4 } else { 0 };
        let stick = [2u64, 5, 20, 1][(c % 4) as usize]; // how often the state stays (rejections)
        // every fourth chain (the f32 one among the long ones, c = 2; c = 6, ...) lives far from the origin
        // (c % 8 = 4: an f64 chain, c % 8 = 5: an i32 chain, both at 1e9 -- the spacing of f32 numbers there is 64, so the
        // spread survives only if the location is removed before the values are narrowed to f32)
        let off: i64 = match c % 8 { 2 | 6 => 4000, 4 | 5 => 1_000_000_000, _ => 0 };
        // the initial state is NOT a fed draw: every third chain starts far away from everything it is fed afterwards
        let far = if c % 3 == 2 { 3000 + 500 * c as i64 } else { 0 };
        let x0: Vec<i64> = (0..np).map(|_| (splitmix(&mut s) % 8) as i64 + far).collect();
        // spacing of f32 numbers at the chain's location, in units of 2^-12 (0 near the origin: covered by the base budget)
        let mslack: i64 = if off == 0 { 0 } else { ((f32::from_bits((off as f32).to_bits() + 1) - off as f32) as f64 * 4096.0).ceil() as i64 };
        out.push(&json!({"e": "new", "P": np, "x0": x0, "mslack": mslack, "ty": (["f64", "i32", "f32", "usize"][(c % 4) as usize])}));
        let mut cur = x0.clone();
        macro_rules! run {
            ($t:ty) => {{
                let init: Vec<$t> = x0.iter().map(|v| (*v + off) as $t).collect();
                let mut tr = ChainTracker::new(np, &init);
                for _ in 0..steps {
                    if splitmix(&mut s) % stick == 0 || stick == 1 || cur.iter().any(|v| *v > 7) {
                        if cur.iter().any(|v| *v > 7) {
                            // leave the far start: from now on the chain lives in 0..7
                            for v in cur.iter_mut() {
                                *v = (splitmix(&mut s) % 8) as i64;
                            }
                        }
                        // propose a change in a random coordinate (may coincide with the old value)
                        let k = (splitmix(&mut s) % np as u64) as usize;
                        cur[k] = (splitmix(&mut s) % 8) as i64;
                        moved += 1;
                    }
                    // `off`: where on the number line the chain lives.  The tracker is fed off + cur; the trace carries the
                    // values and the reported mean RELATIVE to off (mean and variance are shift-equivariant / invariant), so
                    // that the specification's integers stay small
                    let x: Vec<$t> = cur.iter().map(|v| (*v + off) as $t).collect();
                    if let Err(e) = catch(|| tr.step(&x).unwrap()) {
                        out.push(&json!({"e": "panic", "msg": e}));
                        break;
                    }
                    let st = tr.stats();
                    out.push(&json!({"e": "upd", "x": cur, "n": st.n,
                        "mean": st.mean.iter().map(|m| fx64(*m as f64 - off as f64, 12)).collect::<Vec<_>>(),
                        "var": if st.n >= 2 { st.sm2.iter().map(|m| fx(*m, 12)).collect::<Vec<_>>() } else { vec![] },
                        "p": fx(st.p_accept, 20)}));
                }
            }};
        }
        match c % 4 {
            0 => run!(f64),
            1 => run!(i32),
            2 => run!(f32),
            _ => run!(usize),
        }
    }
    // multi-chain tracker
    for (nc, np) in [(2usize, 1usize), (5, 2), (16, 3)] {
        out.push(&json!({"e": "mnew", "C": nc, "P": np}));
        let mut m = MultiChainTracker::new(nc, np);
        let mut rows: Vec<Vec<i64>> = vec![vec![0; np]; nc];
        for _ in 0..steps_short.min(300) {
            for r in rows.iter_mut() {
                if splitmix(&mut s) % 3 == 0 {
                    r[0] = (splitmix(&mut s) % 4) as i64;
                }
            }
            let flat: Vec<f32> = rows.iter().flatten().map(|v| *v as f32).collect();
            if let Err(e) = catch(|| m.step(&flat).unwrap()) {
                out.push(&json!({"e": "panic", "msg": e}));
                break;
            }
            out.push(&json!({"e": "mupd", "rows": rows, "p": fx(m.p_accept, 15)}));
        }
    }
    let n = out.finish();
    println!("{}", json!({"summary": true, "events": n, "moved": moved}));
}
