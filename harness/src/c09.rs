//! C09 — run(): shape, chain order, burn-in discard, continuation.
//! replay: call histories with the expected matrix of *transition counts* (spec/Runner.tla) are
//! executed on a counting user-defined chain (exact) and on the real samplers, where "the state
//! after t transitions" comes from a shadow clone stepped manually (MH, Gibbs) or from the
//! per-transition hook events (HMC, NUTS).
//! record: counting chains under the real rayon pool log every step for spec/Trace_Runner.tla.
use crate::util::*;
use burn::backend::{Autodiff, NdArray};
use mini_mcmc::core::{ChainRunner, HasChains, MarkovChain};
use mini_mcmc::distributions::{Conditional, DiffableGaussian2D, Gaussian2D, IsotropicGaussian, Proposal, Rosenbrock2D};
use mini_mcmc::gibbs::GibbsSampler;
use mini_mcmc::hmc::HMC;
use mini_mcmc::metropolis_hastings::MetropolisHastings;
use mini_mcmc::nuts::{NUTSChain, NUTS};
use ndarray::{arr1, arr2};
use serde_json::{json, Value};
use std::cell::RefCell;
use std::rc::Rc;
use std::sync::{Arc, Mutex};

type B64 = Autodiff<NdArray<f64>>;
type B32 = Autodiff<NdArray<f32>>;

// ------------------------------------------------------------ counting chain
pub struct CountChain<T> {
    pub state: Vec<T>,
    pub log: Option<Arc<Mutex<Vec<(usize, u64)>>>>,
    pub id: usize,
}
pub trait Cnt: ndarray::LinalgScalar + Send + PartialEq + num_traits::ToPrimitive + num_traits::FromPrimitive + std::fmt::Debug {}
impl Cnt for f64 {}
impl Cnt for f32 {}
impl Cnt for i32 {}
impl Cnt for usize {}
impl<T: Cnt> MarkovChain<T> for CountChain<T> {
    fn step(&mut self) -> &Vec<T> {
        self.state[1] = self.state[1] + T::one();
        if let Some(l) = &self.log {
            let tid = thread_id_u64();
            l.lock().unwrap().push((self.id, tid));
            std::thread::sleep(std::time::Duration::from_micros(200)); // let the pool interleave
        }
        &self.state
    }
    fn current_state(&self) -> &Vec<T> {
        &self.state
    }
}
pub fn thread_id_u64() -> u64 {
    // stable small id per thread
    thread_local! { static ID: u64 = { static N: std::sync::atomic::AtomicU64 = std::sync::atomic::AtomicU64::new(1); N.fetch_add(1, std::sync::atomic::Ordering::SeqCst) }; }
    ID.with(|i| *i)
}
pub struct CountSampler<T> {
    pub chains: Vec<CountChain<T>>,
}
impl<T: Cnt> HasChains<T> for CountSampler<T> {
    type Chain = CountChain<T>;
    fn chains_mut(&mut self) -> &mut Vec<Self::Chain> {
        &mut self.chains
    }
}

struct Acc {
    evals: u64,
    bad: Vec<Value>,
}
impl Acc {
    fn fail(&mut self, c: &Value, sampler: &str, why: String) {
        if self.bad.len() < 30 {
            self.bad.push(json!({"variant": c["variant"], "calls": c["calls"], "sampler": sampler, "why": why}));
        }
    }
}
fn calls_of(c: &Value) -> Vec<(usize, usize)> {
    c["calls"].as_array().unwrap().iter().map(|p| (p[0].as_u64().unwrap() as usize, p[1].as_u64().unwrap() as usize)).collect()
}
fn expected(c: &Value) -> Vec<Vec<usize>> {
    c["results"].as_array().unwrap().iter().map(|r| r.as_array().unwrap().iter().map(|x| x.as_u64().unwrap() as usize).collect()).collect()
}

fn counting<T: Cnt>(c: &Value, n_chains: usize, acc: &mut Acc, tname: &str) {
    let mut s = CountSampler { chains: (0..n_chains).map(|id| CountChain { state: vec![T::from_usize(id).unwrap(), T::zero()], log: None, id }).collect() };
    let exp = expected(c);
    for (k, (nc, nd)) in calls_of(c).into_iter().enumerate() {
        acc.evals += 1;
        let out = match catch(|| s.run(nc, nd)) {
            Ok(Ok(o)) => o,
            Ok(Err(e)) => return acc.fail(c, &format!("counting<{tname}> x{n_chains}"), format!("call {k}: run returned Err({e})")),
            Err(e) => return acc.fail(c, &format!("counting<{tname}> x{n_chains}"), format!("call {k}: panic {e}")),
        };
        if out.shape() != [n_chains, nc, 2] {
            return acc.fail(c, &format!("counting<{tname}> x{n_chains}"), format!("call {k}: shape {:?}, expected [{n_chains}, {nc}, 2]", out.shape()));
        }
        for ch in 0..n_chains {
            for r in 0..nc {
                let (id, cnt) = (out[[ch, r, 0]].to_usize().unwrap(), out[[ch, r, 1]].to_usize().unwrap());
                if id != ch || cnt != exp[k][r] {
                    return acc.fail(c, &format!("counting<{tname}> x{n_chains}"),
                        format!("call {k}: out[{ch}][{r}] belongs to chain {id} after {cnt} transitions, expected chain {ch} after {}", exp[k][r]));
                }
            }
        }
    }
    let fin = c["final"].as_u64().unwrap() as usize;
    for ch in &s.chains {
        if ch.state[1].to_usize().unwrap() != fin {
            return acc.fail(c, &format!("counting<{tname}> x{n_chains}"), format!("chain {} made {:?} transitions in total, expected {fin}", ch.id, ch.state[1]));
        }
    }
}

fn mh(c: &Value, n_chains: usize, acc: &mut Acc) {
    let target = Gaussian2D::<f64> { mean: arr1(&[0.0, 0.5]), cov: arr2(&[[1.0, 0.3], [0.3, 2.0]]) };
    let inits: Vec<Vec<f64>> = (0..n_chains).map(|i| vec![i as f64 * 0.5, -(i as f64)]).collect();
    let mut s = MetropolisHastings::new(target, IsotropicGaussian::<f64>::new(0.9).set_seed(5), inits).seed(77);
    // give each chain its own proposal stream so that chains are distinguishable
    for (i, ch) in s.chains.iter_mut().enumerate() {
        ch.proposal = ch.proposal.clone().set_seed(1000 + i as u64);
    }
    let mut shadow = s.clone();
    let horizon = c["final"].as_u64().unwrap() as usize;
    let shadow_states: Vec<Vec<Vec<f64>>> = shadow.chains.iter_mut().map(|ch| {
        let mut v = vec![ch.current_state.clone()];
        for _ in 0..horizon { v.push(ch.step().clone()); }
        v
    }).collect();
    let exp = expected(c);
    for (k, (nc, nd)) in calls_of(c).into_iter().enumerate() {
        acc.evals += 1;
        let out = match catch(|| s.run(nc, nd)) {
            Ok(Ok(o)) => o,
            other => return acc.fail(c, "MetropolisHastings", format!("call {k}: {:?}", other.map(|r| r.map(|_| ()).map_err(|e| e.to_string())))),
        };
        if out.shape() != [n_chains, nc, 2] {
            return acc.fail(c, "MetropolisHastings", format!("call {k}: shape {:?}", out.shape()));
        }
        for ch in 0..n_chains {
            for r in 0..nc {
                let want = &shadow_states[ch][exp[k][r]];
                if (0..2).any(|d| out[[ch, r, d]].to_bits() != want[d].to_bits()) {
                    return acc.fail(c, "MetropolisHastings", format!("call {k}: out[{ch}][{r}] is not chain {ch}'s state after {} transitions", exp[k][r]));
                }
            }
        }
    }
    for (ch, chain) in s.chains.iter().enumerate() {
        if chain.current_state != shadow_states[ch][horizon] {
            return acc.fail(c, "MetropolisHastings", format!("chain {ch} is not left at its state after {horizon} transitions"));
        }
    }
}

#[derive(Clone)]
struct DetCond;
impl Conditional<f64> for DetCond {
    fn sample(&mut self, i: usize, given: &[f64]) -> f64 {
        let other = given[(i + 1) % given.len()];
        0.5 * other + 1.0 + i as f64
    }
}
fn gibbs(c: &Value, n_chains: usize, acc: &mut Acc) {
    let inits: Vec<Vec<f64>> = (0..n_chains).map(|i| vec![i as f64, 1.0, -2.0 * i as f64]).collect();
    let mut s = GibbsSampler::new(DetCond, inits).set_seed(3);
    let mut shadow = s.chains.clone();
    let horizon = c["final"].as_u64().unwrap() as usize;
    let shadow_states: Vec<Vec<Vec<f64>>> = shadow.iter_mut().map(|ch| {
        let mut v = vec![ch.current_state.clone()];
        for _ in 0..horizon { v.push(ch.step().clone()); }
        v
    }).collect();
    let exp = expected(c);
    for (k, (nc, nd)) in calls_of(c).into_iter().enumerate() {
        acc.evals += 1;
        let out = match catch(|| s.run(nc, nd)) {
            Ok(Ok(o)) => o,
            _ => return acc.fail(c, "GibbsSampler", format!("call {k}: run failed")),
        };
        if out.shape() != [n_chains, nc, 3] {
            return acc.fail(c, "GibbsSampler", format!("call {k}: shape {:?}", out.shape()));
        }
        for ch in 0..n_chains {
            for r in 0..nc {
                let want = &shadow_states[ch][exp[k][r]];
                if (0..3).any(|d| out[[ch, r, d]].to_bits() != want[d].to_bits()) {
                    return acc.fail(c, "GibbsSampler", format!("call {k}: out[{ch}][{r}] is not chain {ch}'s state after {} transitions", exp[k][r]));
                }
            }
        }
    }
}

/// Collects the positions the hooks report after every transition on this thread.
fn with_positions<R>(event: &'static str, skip: usize, f: impl FnOnce() -> R) -> (Result<R, String>, Vec<Vec<f64>>) {
    let log: Rc<RefCell<Vec<Vec<f64>>>> = Default::default();
    let l2 = log.clone();
    mini_mcmc::verif::set_sink(Some(Box::new(move |name, _ints, floats| {
        if name == event {
            l2.borrow_mut().push(floats[skip..].to_vec());
        }
    })));
    let r = catch(f);
    mini_mcmc::verif::set_sink(None);
    let v = log.borrow().clone();
    (r, v)
}

fn hmc<B: burn::tensor::backend::AutodiffBackend, T>(c: &Value, n_chains: usize, acc: &mut Acc, name: &str)
where
    T: num_traits::Float + num_traits::FloatConst + burn::tensor::ElementConversion + burn::tensor::Element + rand_distr::uniform::SampleUniform + num_traits::FromPrimitive + std::fmt::Debug,
    rand_distr::StandardNormal: rand::distr::Distribution<T>,
    rand_distr::StandardUniform: rand_distr::Distribution<T>,
{
    let target = DiffableGaussian2D::<T>::new([T::zero(), T::one()], [[T::from(1.5).unwrap(), T::from(0.4).unwrap()], [T::from(0.4).unwrap(), T::one()]]);
    let inits: Vec<Vec<T>> = (0..n_chains).map(|i| vec![T::from(i as f64 * 0.3).unwrap(), T::from(-(i as f64) * 0.2).unwrap()]).collect();
    let init_flat: Vec<f64> = inits.iter().flatten().map(|x| num_traits::ToPrimitive::to_f64(x).unwrap()).collect();
    let mut s = HMC::<T, B, _>::new(target, inits, T::from(0.2).unwrap(), 3).set_seed(11);
    let exp = expected(c);
    let calls = calls_of(c);
    let (r, pos) = with_positions("hmc_end", 0, || {
        calls.iter().map(|(nc, nd)| { let t = s.run(*nc, *nd); (t.dims(), t.into_data().convert::<f64>().to_vec::<f64>().unwrap()) }).collect::<Vec<_>>()
    });
    acc.evals += calls.len() as u64;
    let outs = match r {
        Ok(o) => o,
        Err(e) => return acc.fail(c, name, format!("panic {e}")),
    };
    let fin = c["final"].as_u64().unwrap() as usize;
    if pos.len() != fin {
        return acc.fail(c, name, format!("{} transitions were made, expected {fin}", pos.len()));
    }
    for (k, (dims, data)) in outs.iter().enumerate() {
        let nc = calls[k].0;
        if *dims != [n_chains, nc, 2] {
            return acc.fail(c, name, format!("call {k}: shape {:?}, expected [{n_chains}, {nc}, 2]", dims));
        }
        for ch in 0..n_chains {
            for r in 0..nc {
                let t = exp[k][r];
                let want: &[f64] = if t == 0 { &init_flat[ch * 2..ch * 2 + 2] } else { &pos[t - 1][ch * 2..ch * 2 + 2] };
                let got = &data[(ch * nc + r) * 2..(ch * nc + r) * 2 + 2];
                if got[0].to_bits() != want[0].to_bits() || got[1].to_bits() != want[1].to_bits() {
                    return acc.fail(c, name, format!("call {k}: out[{ch}][{r}] = {:?} is not row {ch} after {t} transitions ({:?})", got, want));
                }
            }
        }
    }
}

fn nuts_chain(c: &Value, acc: &mut Acc) {
    let target = Rosenbrock2D::<f64> { a: 1.0, b: 5.0 };
    let init = vec![0.3f64, -0.4];
    let mut ch = NUTSChain::<f64, B64, _>::new(target, init.clone(), 0.8).set_seed(21);
    let exp = expected(c);
    let calls = calls_of(c);
    let (r, pos) = with_positions("nuts_end", 5, || {
        calls.iter().map(|(nc, nd)| { let t = ch.run(*nc, *nd); (t.dims(), t.into_data().convert::<f64>().to_vec::<f64>().unwrap()) }).collect::<Vec<_>>()
    });
    acc.evals += calls.len() as u64;
    let outs = match r {
        Ok(o) => o,
        Err(e) => return acc.fail(c, "NUTSChain", format!("panic {e}")),
    };
    let fin = c["final"].as_u64().unwrap() as usize;
    if pos.len() != fin {
        return acc.fail(c, "NUTSChain", format!("{} transitions were made, expected {fin}", pos.len()));
    }
    for (k, (dims, data)) in outs.iter().enumerate() {
        let nc = calls[k].0;
        if *dims != [nc, 2] {
            return acc.fail(c, "NUTSChain", format!("call {k}: shape {:?}", dims));
        }
        for r in 0..nc {
            let t = exp[k][r];
            let want: &[f64] = if t == 0 { &init } else { &pos[t - 1] };
            let got = &data[r * 2..r * 2 + 2];
            if got[0].to_bits() != want[0].to_bits() || got[1].to_bits() != want[1].to_bits() {
                return acc.fail(c, "NUTSChain", format!("call {k}: out[{r}] = {:?} is not the state after {t} transitions ({:?})", got, want));
            }
        }
    }
}

fn nuts_multi(c: &Value, n_chains: usize, acc: &mut Acc) {
    let target = DiffableGaussian2D::<f32>::new([0.0, 1.0], [[1.5, 0.4], [0.4, 1.0]]);
    let inits: Vec<Vec<f32>> = (0..n_chains).map(|i| vec![i as f32 * 0.3, -(i as f32) * 0.2]).collect();
    nuts_multi_on::<B32, f32, _>(c, target, inits, 31, "NUTS", acc);
}

/// Chains that share their starting point (the usual `vec![start; n]` construction) are still separate chains: each makes
/// its own start-up search with its own momentum.  Eight chains, two starting points, seed varied with the case.
fn nuts_multi_same_start(c: &Value, idx: usize, acc: &mut Acc) {
    let target = DiffableGaussian2D::<f64>::new([0.0, 1.0], [[1.5, 0.4], [0.4, 1.0]]);
    let inits: Vec<Vec<f64>> = (0..8).map(|i| if i % 4 == 3 { vec![-0.7, 2.1] } else { vec![1.3, -0.4] }).collect();
    nuts_multi_on::<B64, f64, _>(c, target, inits, 1000 + 7 * idx as u64, "NUTS (chains sharing a start)", acc);
}

fn nuts_multi_on<B, T, G>(c: &Value, target: G, inits: Vec<Vec<T>>, seed: u64, who: &str, acc: &mut Acc)
where
    B: burn::tensor::backend::AutodiffBackend + Send,
    T: num_traits::Float + burn::tensor::Element + burn::tensor::ElementConversion + rand_distr::uniform::SampleUniform + num_traits::FromPrimitive + Send,
    G: mini_mcmc::distributions::GradientTarget<T, B> + Sync + Clone + Send,
    rand_distr::StandardNormal: rand::distr::Distribution<T>,
    rand_distr::StandardUniform: rand_distr::Distribution<T>,
    rand_distr::Exp1: rand::distr::Distribution<T>,
{
    let n_chains = inits.len();
    let mut s = NUTS::<T, B, _>::new(target, inits, T::from(0.8).unwrap()).set_seed(seed);
    let mut singles: Vec<_> = s.verif_chains().clone();
    let calls = calls_of(c);
    for (k, (nc, nd)) in calls.iter().enumerate() {
        acc.evals += 1;
        let multi = match catch(|| { let t = s.run(*nc, *nd); (t.dims(), t.into_data().convert::<f64>().to_vec::<f64>().unwrap()) }) {
            Ok(o) => o,
            Err(e) => return acc.fail(c, who, format!("call {k}: panic {e}")),
        };
        if multi.0 != [n_chains, *nc, 2] {
            return acc.fail(c, who, format!("call {k}: shape {:?}", multi.0));
        }
        for (i, ch) in singles.iter_mut().enumerate() {
            let one = ch.run(*nc, *nd).into_data().convert::<f64>().to_vec::<f64>().unwrap();
            let got = &multi.1[i * nc * 2..(i + 1) * nc * 2];
            if got.iter().zip(&one).any(|(a, b)| a.to_bits() != b.to_bits()) {
                return acc.fail(c, who, format!("call {k}: row {i} of the multi-chain runner differs from chain {i} run individually"));
            }
        }
    }
}

pub fn replay(args: &[String]) {
    let cases = read_ndjson(&args[0]);
    let heavy_every = arg_u64(args, "--heavy-every", 1) as usize;
    let mut acc = Acc { evals: 0, bad: vec![] };
    for (idx, c) in cases.iter().enumerate() {
        let heavy = idx % heavy_every == 0;
        match c["variant"].as_str().unwrap() {
            "generic" => {
                counting::<f64>(c, 3, &mut acc, "f64");
                counting::<i32>(c, 1, &mut acc, "i32");
                counting::<usize>(c, 8, &mut acc, "usize");
                counting::<f32>(c, 32, &mut acc, "f32");
                if heavy {
                    mh(c, 3, &mut acc);
                    gibbs(c, 4, &mut acc);
                }
            }
            "hmc" => {
                if heavy {
                    hmc::<B64, f64>(c, 3, &mut acc, "HMC<f64,NdArray<f64>>");
                    hmc::<B32, f32>(c, 1, &mut acc, "HMC<f32,NdArray<f32>>");
                }
            }
            "nuts" => {
                if heavy {
                    nuts_chain(c, &mut acc);
                    nuts_multi(c, 3, &mut acc);
                    nuts_multi_same_start(c, idx, &mut acc);
                }
            }
            v => tool_error(&format!("variant {v}")),
        }
    }
    println!("{}", json!({"summary": true, "cases": cases.len(), "evaluations": acc.evals, "bad": acc.bad}));
}

/// Real rayon interleavings of counting chains, one event per step().
pub fn record(args: &[String]) {
    let mut out = NdjsonOut::create(arg(args, "--out").unwrap());
    let seed = arg_u64(args, "--seed", 1);
    let runs = arg_u64(args, "--runs", 6);
    let mut s = seed;
    for _ in 0..runs {
        let n_chains = 2 + (splitmix(&mut s) % 7) as usize;
        let calls: Vec<(usize, usize)> = (0..2).map(|_| ((splitmix(&mut s) % 5) as usize, (splitmix(&mut s) % 4) as usize)).collect();
        let log: Arc<Mutex<Vec<(usize, u64)>>> = Default::default();
        let mut smp = CountSampler { chains: (0..n_chains).map(|id| CountChain { state: vec![id as f64, 0.0], log: Some(log.clone()), id }).collect() };
        out.push(&json!({"e": "new", "chains": n_chains, "workers": rayon::current_num_threads()}));
        for (nc, nd) in calls {
            out.push(&json!({"e": "call", "nc": nc, "nd": nd}));
            let r = catch(|| smp.run(nc, nd));
            for (id, tid) in log.lock().unwrap().drain(..) {
                out.push(&json!({"e": "step", "c": id + 1, "t": tid}));
            }
            match r {
                Ok(Ok(o)) => {
                    let m: Vec<Vec<i64>> = (0..n_chains).map(|ch| (0..nc).map(|r| if o[[ch, r, 0]] as usize == ch { o[[ch, r, 1]] as i64 } else { -7 }).collect()).collect();
                    out.push(&json!({"e": "ret", "out": m, "shape": o.shape()}));
                }
                _ => out.push(&json!({"e": "panic"})),
            }
        }
    }
    let n = out.finish();
    println!("{}", json!({"summary": true, "events": n}));
}
