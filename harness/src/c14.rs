//! C14 — no sampler moves to a zero-/NaN-density or non-finite state (record mode).
//! MH on bounded-support / NaN-region targets with proposals that leave the support, NUTS on the
//! NaN-region and divergent targets (events from nutsrec); HMC rows are recorded by c02 --c14.
use crate::c02::fx16;
use crate::nutsrec::project;
use crate::util::*;
use mini_mcmc::core::MarkovChain;
use mini_mcmc::distributions::{IsotropicGaussian, Proposal, Target};
use mini_mcmc::metropolis_hastings::MHMarkovChain;
use rand::rngs::SmallRng;
use rand::{Rng, SeedableRng};
use serde_json::json;

#[derive(Clone, Copy, Debug)]
enum Tgt {
    HalfLine, // ln x - x   : NaN for x < 0, -inf at 0
    Box1,     // -x^2/2 on |x| <= 1, -inf outside
    Sqrt,     // ln sqrt(1 - |x|^2): NaN outside the unit ball
}
impl Tgt {
    fn lp(&self, p: &[f64]) -> f64 {
        match self {
            Tgt::HalfLine => p.iter().map(|x| x.ln() - x).sum(),
            Tgt::Box1 => if p.iter().all(|x| x.abs() <= 1.0) { -0.5 * p.iter().map(|x| x * x).sum::<f64>() } else { f64::NEG_INFINITY },
            Tgt::Sqrt => (1.0 - p.iter().map(|x| x * x).sum::<f64>()).sqrt().ln(),
        }
    }
}
impl Target<f64, f64> for Tgt {
    fn unnorm_logp(&self, p: &[f64]) -> f64 {
        self.lp(p)
    }
}
impl Target<f32, f32> for Tgt {
    fn unnorm_logp(&self, p: &[f32]) -> f32 {
        match self {
            Tgt::HalfLine => p.iter().map(|x| x.ln() - x).sum(),
            Tgt::Box1 => if p.iter().all(|x| x.abs() <= 1.0) { -0.5 * p.iter().map(|x| x * x).sum::<f32>() } else { f32::NEG_INFINITY },
            Tgt::Sqrt => (1.0 - p.iter().map(|x| x * x).sum::<f32>()).sqrt().ln(),
        }
    }
}
/// A proposal that occasionally jumps to infinity / NaN / far outside.
#[derive(Clone)]
struct Wild {
    rng: SmallRng,
}
impl Proposal<f64, f64> for Wild {
    fn sample(&mut self, cur: &[f64]) -> Vec<f64> {
        let k = self.rng.random_range(0..10);
        cur.iter().map(|x| match k {
            0 => f64::INFINITY,
            1 => f64::NAN,
            2 => -x * 1e300,
            3 => f64::NEG_INFINITY,
            _ => x + self.rng.random::<f64>() - 0.5,
        }).collect()
    }
    fn logp(&self, _f: &[f64], t: &[f64]) -> f64 {
        // an asymmetric, sometimes infinite density value
        if t.iter().any(|x| !x.is_finite()) { f64::INFINITY } else { 0.0 }
    }
    fn set_seed(mut self, seed: u64) -> Self {
        self.rng = SmallRng::seed_from_u64(seed);
        self
    }
}

pub fn record(args: &[String]) {
    let seed = arg_u64(args, "--seed", 1);
    let thorough = args.iter().any(|a| a == "--thorough");
    let mut out = NdjsonOut::create(arg(args, "--out").unwrap());
    let steps = if thorough { 4000 } else { 600 };
    let mut s = seed;
    let mut n_bad_cand = 0u64;
    let mut panics = vec![];
    for tgt in [Tgt::HalfLine, Tgt::Box1, Tgt::Sqrt] {
        for dim in [1usize, 3] {
            let start: Vec<f64> = vec![0.5; dim].iter().map(|v: &f64| v / (dim as f64).sqrt()).collect();
            // f64 with the library's Gaussian proposal, large steps
            out.push(&json!({"e": "new", "label": format!("MH {tgt:?} dim{dim} f64 isotropic")}));
            let mut ch = MHMarkovChain::new(tgt, IsotropicGaussian::<f64>::new(1.5).set_seed(splitmix(&mut s)), start.clone());
            ch.rng = SmallRng::seed_from_u64(splitmix(&mut s));
            for _ in 0..steps {
                let before = ch.current_state.clone();
                let u: f64 = ch.rng.clone().random();
                if let Err(p) = catch(|| { ch.step(); }) {
                    panics.push(p);
                    break;
                }
                let after = &ch.current_state;
                let moved = before.iter().zip(after).any(|(a, b)| a.to_bits() != b.to_bits());
                out.push(&json!({"e": "mh", "lp_old": fx16(tgt.lp(&before)), "lp_new": fx16(tgt.lp(after)), "coords_finite": after.iter().all(|x| x.is_finite()),
                    "uzero": u == 0.0, "moved": moved, "unchanged": !moved}));
            }
            // the wild proposal
            out.push(&json!({"e": "new", "label": format!("MH {tgt:?} dim{dim} f64 wild")}));
            let mut ch = MHMarkovChain::new(tgt, Wild { rng: SmallRng::seed_from_u64(splitmix(&mut s)) }, start.clone());
            ch.rng = SmallRng::seed_from_u64(splitmix(&mut s));
            for _ in 0..steps {
                let before = ch.current_state.clone();
                let u: f64 = ch.rng.clone().random();
                if let Err(p) = catch(|| { ch.step(); }) {
                    panics.push(p);
                    break;
                }
                let after = &ch.current_state;
                let moved = before.iter().zip(after).any(|(a, b)| a.to_bits() != b.to_bits());
                if !moved { n_bad_cand += 1; }
                out.push(&json!({"e": "mh", "lp_old": fx16(tgt.lp(&before)), "lp_new": fx16(tgt.lp(after)), "coords_finite": after.iter().all(|x| x.is_finite()),
                    "uzero": u == 0.0, "moved": moved, "unchanged": !moved}));
            }
            // f32
            out.push(&json!({"e": "new", "label": format!("MH {tgt:?} dim{dim} f32 isotropic")}));
            let start32: Vec<f32> = start.iter().map(|v| *v as f32).collect();
            let mut ch = MHMarkovChain::new(tgt, IsotropicGaussian::<f32>::new(1.5).set_seed(splitmix(&mut s)), start32);
            ch.rng = SmallRng::seed_from_u64(splitmix(&mut s));
            for _ in 0..steps {
                let before = ch.current_state.clone();
                let u: f32 = ch.rng.clone().random();
                if let Err(p) = catch(|| { ch.step(); }) {
                    panics.push(p);
                    break;
                }
                let after = &ch.current_state;
                let moved = before.iter().zip(after).any(|(a, b)| a.to_bits() != b.to_bits());
                let to64 = |v: &Vec<f32>| -> Vec<f64> { v.iter().map(|x| *x as f64).collect() };
                let lp32 = |v: &Vec<f32>| -> f64 { <Tgt as Target<f32, f32>>::unnorm_logp(&tgt, v) as f64 };
                let _ = to64;
                out.push(&json!({"e": "mh", "lp_old": fx16(lp32(&before)), "lp_new": fx16(lp32(after)), "coords_finite": after.iter().all(|x| x.is_finite()),
                    "uzero": u == 0.0, "moved": moved, "unchanged": !moved}));
            }
        }
    }
    // NUTS on the NaN-region / divergent targets
    let mut nuts_rows = 0u64;
    for job in crate::c03::jobs(seed, thorough, true) {
        out.push(&json!({"e": "new", "label": format!("NUTS {}", job.label)}));
        if let Some(p) = &job.panic {
            panics.push(format!("NUTS {}: {p}", job.label));
        }
        let pr = project(&job.raw, &job.own, job.tol);
        for e in &pr.bad {
            let mut e = e.clone();
            e["uzero"] = json!(false);
            e["unchanged"] = json!(!e["moved"].as_bool().unwrap());
            out.push(&e);
            nuts_rows += 1;
        }
    }
    let n = out.finish();
    println!("{}", json!({"summary": true, "events": n, "mh_rejections_wild": n_bad_cand, "nuts_rows": nuts_rows, "panics": panics}));
}

/// NUTS with the start-up heuristic on a target whose log-density AND gradient are NaN outside the support, started
/// within one unit-momentum step of the boundary (the first trial step of the heuristic often leaves the support).
/// Run by the driver under a short watchdog: a sampler that hangs there is a violation.
pub fn probe(args: &[String]) {
    use burn::backend::{Autodiff, NdArray};
    type B64 = Autodiff<NdArray<f64>>;
    let seed = arg_u64(args, "--seed", 1);
    let mut out = NdjsonOut::create(arg(args, "--out").unwrap());
    let mut s = seed;
    let mut panics = vec![];
    let mut rows = 0u64;
    for k in 0..12u64 {
        let start = vec![0.15 + 0.05 * (k % 4) as f64, 0.3];
        let sd = splitmix(&mut s);
        let (raw, panic) = crate::nutsrec::run_chain::<B64, f64, _>(crate::nutsrec::SqrtLineN, start, 0.8, sd, &[(6, 3)], None);
        out.push(&json!({"e": "new", "label": format!("NUTS sqrtline/f64 start-up #{k}")}));
        if let Some(p) = panic {
            panics.push(format!("NUTS sqrtline #{k}: {p}"));
        }
        let pr = project(&raw, &crate::nutsrec::OwnN::SqrtLine, 1e-7);
        for e in &pr.bad {
            let mut e = e.clone();
            e["uzero"] = json!(false);
            e["unchanged"] = json!(!e["moved"].as_bool().unwrap());
            out.push(&e);
            rows += 1;
        }
        println!("{}", json!({"progress": k}));
    }
    // start points where the start-up heuristic finds no finite trial step at all: a cusp (finite density, NaN gradient) and
    // a point ON the boundary of the support -- for the seeds whose first momentum points outwards every step size fails
    for k in 0..8u64 {
        let sd = splitmix(&mut s);
        let (raw, panic) = crate::nutsrec::run_chain::<B64, f64, _>(crate::nutsrec::Norm2N, vec![0.0, 0.0], 0.8, sd, &[(5, 5)], None);
        out.push(&json!({"e": "new", "label": format!("NUTS cusp/f64 #{k}")}));
        if let Some(p) = panic {
            panics.push(format!("NUTS cusp #{k}: {p}"));
        }
        for e in &project(&raw, &crate::nutsrec::OwnN::Norm2, 1e-7).bad {
            let mut e = e.clone();
            e["uzero"] = json!(false);
            e["unchanged"] = json!(!e["moved"].as_bool().unwrap());
            out.push(&e);
            rows += 1;
        }
        let (raw, panic) = crate::nutsrec::run_chain::<B64, f64, _>(crate::nutsrec::ExpLineN, vec![0.0], 0.8, sd + 1, &[(5, 5)], None);
        out.push(&json!({"e": "new", "label": format!("NUTS on-the-boundary/f64 #{k}")}));
        if let Some(p) = panic {
            panics.push(format!("NUTS on-the-boundary #{k}: {p}"));
        }
        for e in &project(&raw, &crate::nutsrec::OwnN::ExpLine, 1e-7).bad {
            let mut e = e.clone();
            e["uzero"] = json!(false);
            e["unchanged"] = json!(!e["moved"].as_bool().unwrap());
            out.push(&e);
            rows += 1;
        }
        println!("{}", json!({"progress": 100 + k}));
    }
    let n = out.finish();
    println!("{}", json!({"summary": true, "events": n, "nuts_rows": rows, "panics": panics}));
}
