//! C17 — CSV / Arrow / Parquet export.  Cases (entry point, shape, path kind, expected table of
//! labels and *tokens*) come from TLC (spec/Export.tla); tokens are bound here to adversarial
//! values, the real save_* is called, the file is read back with the crates' own readers.
use crate::util::*;
use arrow::array::{Array, Float64Array, UInt32Array};
use arrow::datatypes::DataType;
use burn::backend::NdArray;
use burn::prelude::*;
use mini_mcmc::io::arrow::save_arrow;
use mini_mcmc::io::csv::{save_csv, save_csv_tensor};
use mini_mcmc::io::parquet::{save_parquet, save_parquet_tensor};
use ndarray::Array3;
use serde_json::{json, Value};
use std::fs::File;

trait Val: Copy + std::fmt::Display + std::str::FromStr + std::fmt::Debug + 'static {
    const NAME: &'static str;
    fn table() -> Vec<Self>;
    fn of(tok: usize) -> Self {
        let t = Self::table();
        t[tok % t.len()]
    }
    fn same(a: Self, b: Self) -> bool;
    fn as_f64(self) -> Option<f64>;
}
impl Val for f32 {
    const NAME: &'static str = "f32";
    fn table() -> Vec<f32> {
        vec![1.5, -0.0, f32::MIN_POSITIVE, f32::NAN, f32::INFINITY, 1e-45, f32::MAX, -3.25e-7, f32::NEG_INFINITY, 0.1, 16777216.0, f32::MIN, 0.0]
    }
    fn same(a: f32, b: f32) -> bool { a.to_bits() == b.to_bits() || (a.is_nan() && b.is_nan()) }
    fn as_f64(self) -> Option<f64> { Some(self as f64) }
}
impl Val for f64 {
    const NAME: &'static str = "f64";
    fn table() -> Vec<f64> {
        vec![1.5, -0.0, f64::MIN_POSITIVE, f64::NAN, f64::INFINITY, 5e-324, f64::MAX, -3.25e-7, f64::NEG_INFINITY, 0.1, 9007199254740993.0, f64::MIN, 0.0, 1.0 / 3.0]
    }
    fn same(a: f64, b: f64) -> bool { a.to_bits() == b.to_bits() || (a.is_nan() && b.is_nan()) }
    fn as_f64(self) -> Option<f64> { Some(self) }
}
impl Val for i32 {
    const NAME: &'static str = "i32";
    fn table() -> Vec<i32> { vec![0, -1, i32::MAX, i32::MIN, 7, 1000000007, -123456789] }
    fn same(a: i32, b: i32) -> bool { a == b }
    fn as_f64(self) -> Option<f64> { Some(self as f64) }
}
impl Val for usize {
    const NAME: &'static str = "usize";
    fn table() -> Vec<usize> { vec![0, 1, usize::MAX, (1usize << 53) + 1, 42] }
    fn same(a: usize, b: usize) -> bool { a == b }
    fn as_f64(self) -> Option<f64> { None }
}

struct ReadBack {
    header: Vec<String>,
    types_ok: bool,
    labels: Vec<(u64, u64)>,
    strs: Vec<Vec<String>>, // csv
    f64s: Vec<Vec<f64>>,    // arrow / parquet
}

fn read_csv(path: &str) -> Result<ReadBack, String> {
    let mut rdr = csv::Reader::from_path(path).map_err(|e| e.to_string())?;
    let header: Vec<String> = rdr.headers().map_err(|e| e.to_string())?.iter().map(|s| s.to_string()).collect();
    let mut rb = ReadBack { header, types_ok: true, labels: vec![], strs: vec![], f64s: vec![] };
    for rec in rdr.records() {
        let rec = rec.map_err(|e| e.to_string())?;
        let f: Vec<String> = rec.iter().map(|s| s.to_string()).collect();
        if f.len() < 2 {
            return Err("short row".into());
        }
        rb.labels.push((f[0].parse().map_err(|_| "label")?, f[1].parse().map_err(|_| "label")?));
        rb.strs.push(f[2..].to_vec());
    }
    Ok(rb)
}
fn from_batches(schema: &arrow::datatypes::Schema, batches: Vec<arrow::record_batch::RecordBatch>) -> Result<ReadBack, String> {
    let header: Vec<String> = schema.fields().iter().map(|f| f.name().clone()).collect();
    let types_ok = schema.fields().iter().enumerate().all(|(i, f)| if i < 2 { f.data_type() == &DataType::UInt32 } else { f.data_type() == &DataType::Float64 });
    let mut rb = ReadBack { header, types_ok, labels: vec![], strs: vec![], f64s: vec![] };
    for b in batches {
        if b.num_columns() < 2 {
            return Err("fewer than 2 columns".into());
        }
        let l1 = b.column(0).as_any().downcast_ref::<UInt32Array>().ok_or("col0 type")?;
        let l2 = b.column(1).as_any().downcast_ref::<UInt32Array>().ok_or("col1 type")?;
        let dims: Vec<&Float64Array> = (2..b.num_columns()).map(|c| b.column(c).as_any().downcast_ref::<Float64Array>().ok_or("dim type")).collect::<Result<_, _>>()?;
        for r in 0..b.num_rows() {
            rb.labels.push((l1.value(r) as u64, l2.value(r) as u64));
            rb.f64s.push(dims.iter().map(|d| if d.is_null(r) { f64::from_bits(0xdead) } else { d.value(r) }).collect());
        }
    }
    Ok(rb)
}
fn read_arrow(path: &str) -> Result<ReadBack, String> {
    let rdr = arrow::ipc::reader::FileReader::try_new(File::open(path).map_err(|e| e.to_string())?, None).map_err(|e| e.to_string())?;
    let schema = rdr.schema();
    let batches: Result<Vec<_>, _> = rdr.collect();
    from_batches(&schema, batches.map_err(|e| e.to_string())?)
}
fn read_parquet(path: &str) -> Result<ReadBack, String> {
    let b = parquet::arrow::arrow_reader::ParquetRecordBatchReaderBuilder::try_new(File::open(path).map_err(|e| e.to_string())?).map_err(|e| e.to_string())?;
    let schema = b.schema().clone();
    let rdr = b.build().map_err(|e| e.to_string())?;
    let batches: Result<Vec<_>, _> = rdr.collect();
    from_batches(&schema, batches.map_err(|e| e.to_string())?)
}

fn arr<T: Val>(shape: &[usize]) -> Array3<T> {
    Array3::from_shape_fn((shape[0], shape[1], shape[2]), |(i, j, k)| T::of((i * shape[1] + j) * shape[2] + k))
}

/// The same logical array (index -> token, which is all Export.tla knows about) in other memory layouts: the
/// specification's `data` is a function of the index triple, so every layout ndarray can hand over must give the same file.
fn same_logical<T: Val>(a: &Array3<T>, shape: &[usize]) -> bool {
    a.dim() == (shape[0], shape[1], shape[2]) && a.indexed_iter().all(|((i, j, k), v)| T::same(*v, T::of((i * shape[1] + j) * shape[2] + k)))
}
const LAYOUTS: [&str; 5] = ["row-major", "column-major", "permuted (observation-major storage)", "reversed axes", "strided view"];
fn arr_layout<T: Val>(shape: &[usize], layout: usize) -> Array3<T> {
    use ndarray::{s, ShapeBuilder};
    let (a, b, d) = (shape[0], shape[1], shape[2]);
    let tok = |i: usize, j: usize, k: usize| T::of((i * b + j) * d + k);
    match layout {
        0 => arr::<T>(shape),
        1 => Array3::from_shape_fn((a, b, d).f(), |(i, j, k)| tok(i, j, k)),
        2 => Array3::from_shape_fn((b, a, d), |(j, i, k)| tok(i, j, k)).permuted_axes([1, 0, 2]),
        3 => Array3::from_shape_fn((d, b, a), |(k, j, i)| tok(i, j, k)).reversed_axes(),
        _ => {
            // every second observation and every second dimension of a larger row-major array: not contiguous
            let big = Array3::from_shape_fn((a, 2 * b, 2 * d + 1), |(i, j, k)| if j % 2 == 0 && k % 2 == 1 { tok(i, j / 2, k / 2) } else { T::of(3) });
            big.slice_move(s![.., ..;2, 1..;2])
        }
    }
}

struct Acc {
    evals: u64,
    ok_cases: u64,
    skipped: Vec<String>,
    bad: Vec<Value>,
}

fn verify<T: Val>(c: &Value, variant: &str, res: Result<Result<(), String>, String>, path: &str, reader: &str, acc: &mut Acc) {
    acc.evals += 1;
    let mut fail = |why: String, acc: &mut Acc| {
        if acc.bad.len() < 30 {
            acc.bad.push(json!({"ep": c["ep"], "shape": c["shape"], "path": c["path"], "variant": variant, "why": why}));
        }
    };
    let want_ok = c["res"] == "ok";
    let res = match res {
        Err(p) => return fail(format!("panicked: {p}"), acc),
        Ok(r) => r,
    };
    if !want_ok {
        if res.is_ok() {
            return fail("reported success for a path that cannot be written".into(), acc);
        }
        let p = std::path::Path::new(path);
        if c["path"] == "nodir" && p.exists() {
            fail("left a file behind after an error".into(), acc);
        }
        return;
    }
    if let Err(e) = res {
        // "whenever a save function reports success ..." -- an Err on a writable path is only
        // acceptable where the entry point cannot represent the input (recorded, not a violation)
        acc.skipped.push(format!("{} {}: Err({})", c["ep"], variant, e.chars().take(80).collect::<String>()));
        return;
    }
    let rb = match reader { "csv" => read_csv(path), "arrow" => read_arrow(path), _ => read_parquet(path) };
    let rb = match rb {
        Ok(r) => r,
        Err(e) => return fail(format!("file cannot be read back: {e}"), acc),
    };
    acc.ok_cases += 1;
    let t = &c["table"];
    let ndim = t["header"]["dims"].as_array().unwrap().len();
    let mut want_header = vec![t["header"]["l1"].as_str().unwrap().to_string(), t["header"]["l2"].as_str().unwrap().to_string()];
    want_header.extend((0..ndim).map(|k| format!("dim_{k}")));
    if rb.header != want_header {
        return fail(format!("header {:?}, documented {:?}", rb.header, want_header), acc);
    }
    if !rb.types_ok {
        return fail("schema types are not (UInt32, UInt32, Float64..)".into(), acc);
    }
    let rows = t["rows"].as_array().unwrap();
    if rb.labels.len() != rows.len() {
        return fail(format!("{} rows, expected {}", rb.labels.len(), rows.len()), acc);
    }
    for (r, row) in rows.iter().enumerate() {
        let want = (row["l1"].as_u64().unwrap(), row["l2"].as_u64().unwrap());
        if rb.labels[r] != want {
            return fail(format!("row {r}: labels {:?}, expected {:?}", rb.labels[r], want), acc);
        }
        for (k, tok) in row["vals"].as_array().unwrap().iter().enumerate() {
            let v = T::of(tok.as_u64().unwrap() as usize);
            if reader == "csv" {
                let s = &rb.strs[r][k];
                match s.parse::<T>() {
                    Ok(p) if T::same(p, v) => {}
                    _ => return fail(format!("row {r} dim_{k}: field {s:?} does not parse back to {v:?}"), acc),
                }
            } else {
                let got = rb.f64s[r][k];
                let w = v.as_f64().unwrap();
                if !(got.to_bits() == w.to_bits() || (got.is_nan() && w.is_nan())) {
                    return fail(format!("row {r} dim_{k}: {got:?}, stored {v:?} widens to {w:?}"), acc);
                }
            }
        }
    }
}

fn tensor<B: Backend>(shape: &[usize], f: impl Fn(usize) -> f64) -> Result<Tensor<B, 3>, String> {
    let n = shape[0] * shape[1] * shape[2];
    let data: Vec<f64> = (0..n).map(f).collect();
    let sh = [shape[0], shape[1], shape[2]];
    catch(|| Tensor::<B, 3>::from_data(TensorData::new(data, sh), &B::Device::default()))
}

/// "full": a device that can be opened for writing and refuses every byte (ENOSPC) -- the error surfaces only when the
/// writer's buffer is flushed, i.e. possibly only at the very end of the save.
fn target_path(c: &Value, base: &str, ext: &str) -> String {
    match c["path"].as_str().unwrap() {
        "isdir" => base.to_string(),
        "full" => "/dev/full".to_string(),
        _ => format!("{base}.{ext}"),
    }
}
fn clean(path: &str) -> std::io::Result<()> {
    if path.starts_with("/dev/") {
        return Ok(()); // never unlink a device node
    }
    // Export!Init: the path already holds an older, LONGER export (a save replaces the file's content, it does not write over
    // its beginning); for the unwritable path kinds this write fails and nothing is there, as before
    let _ = std::fs::remove_file(path);
    let stale: String = "chain,observation,dim_0,dim_1\n".to_string() + &"7,7,7.5,7.5\n".repeat(6000);
    std::fs::write(path, stale)
}

/// Is /dev/full what it should be here (a character device whose writes fail)?  Where it is not, the `full` cases are skipped
/// (recorded), never judged: writing to a regular file of that name would succeed and prove nothing.
fn full_device_ok() -> bool {
    use std::io::Write;
    use std::os::unix::fs::FileTypeExt;
    let is_dev = std::fs::metadata("/dev/full").map(|m| m.file_type().is_char_device()).unwrap_or(false);
    if !is_dev {
        return false;
    }
    match std::fs::OpenOptions::new().write(true).open("/dev/full") {
        Ok(mut f) => f.write_all(b"x").and_then(|_| f.flush()).is_err(),
        Err(_) => false,
    }
}

fn run_case(c: &Value, dir: &str, acc: &mut Acc) {
    if c["path"] == "full" && !full_device_ok() {
        acc.skipped.push("path kind `full`: /dev/full is not a write-refusing character device here".to_string());
        return;
    }
    let shape: Vec<usize> = c["shape"].as_array().unwrap().iter().map(|x| x.as_u64().unwrap() as usize).collect();
    let ep = c["ep"].as_str().unwrap();
    let base = match c["path"].as_str().unwrap() {
        "ok" => format!("{dir}/out"),
        "nodir" => format!("{dir}/missing_dir/out"),
        _ => dir.to_string(),
    };
    let strerr = |r: Result<(), Box<dyn std::error::Error>>| r.map_err(|e| e.to_string());
    macro_rules! array_ep {
        ($t:ty, $save:ident, $reader:expr) => {{
            let path = target_path(c, &base, $reader);
            let _ = clean(&path);
            for (li, lname) in LAYOUTS.iter().enumerate() {
                let _ = clean(&path);
                let a = arr_layout::<$t>(&shape, li);
                if !same_logical::<$t>(&a, &shape) {
                    crate::util::tool_error(&format!("c17: layout {lname} does not hold the same logical array"));
                }
                let r = catch(|| strerr($save(&a, &path)));
                let variant = if li == 0 { <$t as Val>::NAME.to_string() } else { format!("{} {lname}", <$t as Val>::NAME) };
                verify::<$t>(c, &variant, r, &path, $reader, acc);
            }
        }};
    }
    match ep {
        "csv" => {
            array_ep!(f32, save_csv, "csv");
            array_ep!(f64, save_csv, "csv");
            array_ep!(i32, save_csv, "csv");
            array_ep!(usize, save_csv, "csv");
        }
        "arrow" => {
            array_ep!(f32, save_arrow, "arrow");
            array_ep!(f64, save_arrow, "arrow");
            array_ep!(i32, save_arrow, "arrow");
        }
        "parquet" => {
            array_ep!(f32, save_parquet, "parquet");
            array_ep!(f64, save_parquet, "parquet");
            array_ep!(i32, save_parquet, "parquet");
        }
        "csv_tensor" => {
            let path = target_path(c, &base, "csv");
            let _ = clean(&path);
            match tensor::<NdArray<f32>>(&shape, |k| f32::of(k) as f64) {
                Err(e) => acc.skipped.push(format!("csv_tensor {:?}: tensor not constructible: {}", shape, e.chars().take(60).collect::<String>())),
                Ok(t) => {
                    let r = catch(|| strerr(save_csv_tensor(t, &path)));
                    verify::<f32>(c, "NdArray<f32>", r, &path, "csv", acc);
                }
            }
            let _ = clean(&path);
            if let Ok(t) = tensor::<NdArray<f64>>(&shape, |k| f64::of(k)) {
                // f64 backend: the function converts to f32; it may refuse (Err) but must not panic or mislabel
                let r = catch(|| strerr(save_csv_tensor(t, &path)));
                match r {
                    Err(p) => acc.bad.push(json!({"ep": ep, "shape": shape, "path": c["path"], "variant": "NdArray<f64>", "why": format!("panicked: {p}")})),
                    Ok(Ok(())) if c["res"] == "err" => acc.bad.push(json!({"ep": ep, "shape": shape, "path": c["path"], "variant": "NdArray<f64>", "why": "reported success for an unwritable path"})),
                    Ok(_) => {}
                }
                acc.evals += 1;
            }
        }
        "parquet_tensor" => {
            let path = target_path(c, &base, "parquet");
            let _ = clean(&path);
            match tensor::<NdArray<f32>>(&shape, |k| f32::of(k) as f64) {
                Err(e) => acc.skipped.push(format!("parquet_tensor {:?}: tensor not constructible: {}", shape, e.chars().take(60).collect::<String>())),
                Ok(t) => {
                    let r = catch(|| strerr(save_parquet_tensor::<NdArray<f32>, _, f32>(&t, &path)));
                    verify::<f32>(c, "NdArray<f32>/f32", r, &path, "parquet", acc);
                }
            }
            let _ = clean(&path);
            if let Ok(t) = tensor::<NdArray<f64>>(&shape, |k| f64::of(k)) {
                let r = catch(|| strerr(save_parquet_tensor::<NdArray<f64>, _, f64>(&t, &path)));
                verify::<f64>(c, "NdArray<f64>/f64", r, &path, "parquet", acc);
            }
        }
        e => tool_error(&format!("entry point {e}")),
    }
}

pub fn replay(args: &[String]) {
    let cases = read_ndjson(&args[0]);
    let dir = arg(args, "--dir").unwrap().to_string();
    std::fs::create_dir_all(&dir).unwrap();
    let mut acc = Acc { evals: 0, ok_cases: 0, skipped: vec![], bad: vec![] };
    for c in &cases {
        run_case(c, &dir, &mut acc);
    }
    acc.skipped.sort();
    acc.skipped.dedup();
    println!("{}", json!({"summary": true, "cases": cases.len(), "evaluations": acc.evals, "read_back": acc.ok_cases,
        "skipped": acc.skipped.iter().take(12).collect::<Vec<_>>(), "n_skipped_kinds": acc.skipped.len(), "bad": acc.bad}));
}
