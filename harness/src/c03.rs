//! C03 — NUTS transition = Algorithm 6 on the leapfrog trajectory (record mode for
//! spec/Trace_NutsTree.tla).  See nutsrec.rs for the projection.
use crate::nutsrec::*;
use crate::util::*;
use burn::backend::{Autodiff, NdArray};
use mini_mcmc::distributions::{DiffableGaussian2D, Rosenbrock2D};
use burn::prelude::*;
use mini_mcmc::distributions::GradientTarget;
use serde_json::{json, Value};

type B64 = Autodiff<NdArray<f64>>;
type B32 = Autodiff<NdArray<f32>>;

pub struct Job {
    pub label: String,
    pub raw: Raw,
    pub panic: Option<String>,
    pub own: OwnN,
    pub tol: f64,
}

fn rand_prec(d: usize, s: &mut u64, cond: f64) -> Vec<Vec<f64>> {
    // P = A'A + diag, scaled: symmetric positive definite
    let a: Vec<Vec<f64>> = (0..d).map(|_| (0..d).map(|_| (splitmix(s) % 2000) as f64 / 1000.0 - 1.0).collect()).collect();
    let mut p = vec![vec![0.0; d]; d];
    for i in 0..d {
        for j in 0..d {
            p[i][j] = (0..d).map(|k| a[k][i] * a[k][j]).sum::<f64>() * 0.5;
        }
        p[i][i] += 0.2 + cond * (i as f64) / (d as f64);
    }
    p
}

/// All recorded jobs of one tier.  `bad_only`: only the targets with NaN regions / divergences (C14).
pub fn jobs(seed: u64, thorough: bool, bad_only: bool) -> Vec<Job> {
    let mut s = seed;
    let mut out = vec![];
    let steps = if thorough { (30usize, 20usize) } else { (10, 8) };
    let reps = if thorough { 4 } else { 1 };
    for rep in 0..reps {
        let sd = splitmix(&mut s);
        if !bad_only {
            for d in if thorough { vec![1usize, 2, 3, 5, 8] } else { vec![1usize, 3, 8] } {
                let prec = rand_prec(d, &mut s, 3.0);
                let init: Vec<f64> = (0..d).map(|_| (splitmix(&mut s) % 3000) as f64 / 1000.0 - 1.5).collect();
                let (raw, panic) = run_chain::<B64, f64, _>(GaussP { prec: prec.clone() }, init.clone(), 0.8, sd, &[(steps.0, steps.1)], None);
                out.push(Job { label: format!("gaussP{d}/f64"), raw, panic, own: OwnN::GaussP { prec: prec.clone() }, tol: 1e-11 });
                let (raw, panic) = run_chain::<B32, f32, _>(GaussP { prec: prec.clone() }, init.iter().map(|v| *v as f32 as f64).collect(), 0.65, sd + 1, &[(steps.0, steps.1)], None);
                let p32: Vec<Vec<f64>> = prec.iter().map(|r| r.iter().map(|v| *v as f32 as f64).collect()).collect();
                out.push(Job { label: format!("gaussP{d}/f32"), raw, panic, own: OwnN::GaussP { prec: p32 }, tol: 5e-4 });
            }
            let (mean, cov) = ([0.5f32, -0.25], [[1.5f32, 0.5], [0.5, 1.0]]);
            let (raw, panic) = run_chain::<B32, f32, _>(DiffableGaussian2D::<f32>::new(mean, cov), vec![1.0, 1.0], 0.9, sd + 2, &[(steps.0, steps.1), (5, 0)], None);
            out.push(Job { label: "gauss2lib/f32".into(), raw, panic,
                own: OwnN::Gauss2Lib { mean: [mean[0] as f64, mean[1] as f64], cov: [[cov[0][0] as f64, cov[0][1] as f64], [cov[1][0] as f64, cov[1][1] as f64]] }, tol: 5e-4 });
            let (raw, panic) = run_chain::<B64, f64, _>(Rosenbrock2D::<f64> { a: 1.0, b: 10.0 }, vec![0.2, 0.1], 0.8, sd + 3, &[(steps.0, steps.1)], None);
            out.push(Job { label: "rosen2/f64".into(), raw, panic, own: OwnN::Rosen2 { a: 1.0, b: 10.0 }, tol: 1e-11 });
            let (raw, panic) = run_chain::<B64, f64, _>(Funnel, vec![0.0, 0.5, -0.5, 0.2], 0.8, sd + 4, &[(steps.0, steps.1)], None);
            out.push(Job { label: "funnel4/f64".into(), raw, panic, own: OwnN::Funnel, tol: 1e-11 });
            // deep trees: tiny forced step size on a wide Gaussian, no warm-up (step size frozen after the first transition)
            let wide = vec![vec![0.01]];
            let (raw, panic) = run_chain::<B64, f64, _>(GaussP { prec: wide.clone() }, vec![0.3], 0.8, sd + 5, &[(3, 0)], Some(0.02));
            out.push(Job { label: "deep-tree/f64".into(), raw, panic, own: OwnN::GaussP { prec: wide }, tol: 1e-11 });
            // cliffs without forces: scripted slice holes / isolated admissible points / divergence walls along straight trajectories
            for (k, (cell, levels, omega2, eps0)) in [
                (1.5, vec![0.0, -0.7, 0.0, -30.0, 0.0, 0.0, -1.5, 0.0], 0.25, 0.3),
                (0.8, vec![0.0, -40.0, -40.0, 0.0, -0.3, -40.0, 0.0, -2.0, -40.0], 0.04, 0.4),
                (2.5, vec![0.0, 0.0, -1.0, 0.0, 0.0, -0.2, 0.0, 0.0, 0.0, -5000.0], 0.09, 0.5),
            ].into_iter().enumerate() {
                let t = Cliffs { cell, levels: levels.clone(), omega2, kappa: 0.02 };
                let (raw, panic) = run_chain::<B64, f64, _>(t, vec![0.3 * cell, 0.4], 0.8, sd + 20 + k as u64, &[(steps.0 + 14, 0)], Some(eps0));
                out.push(Job { label: format!("cliffs{k}/f64"), raw, panic, own: OwnN::Cliffs { cell, levels, omega2, kappa: 0.02 }, tol: 1e-11 });
            }
            // far out in the tail: the first leaves gain thousands of units of log-density -- far ABOVE the slice level, which is
            // not a divergence (the bound of 1000 is one-sided); forced step sizes around 1 and the start-up heuristic
            for (k, (x0, eps0)) in [(150.0, Some(1.0)), (-220.0, Some(0.7)), (120.0, None)].into_iter().enumerate() {
                let unit = vec![vec![1.0, 0.0], vec![0.0, 1.0]];
                let (raw, panic) = run_chain::<B64, f64, _>(GaussP { prec: unit.clone() }, vec![x0, -0.5 * x0], 0.8, sd + 30 + k as u64, &[(6, 0)], eps0);
                out.push(Job { label: format!("far-tail{k}/f64"), raw, panic, own: OwnN::GaussP { prec: unit }, tol: 1e-11 });
            }
            {
                let (cell, levels, omega2) = (1.2, vec![0.0, 0.0, 1500.0, 0.0, 0.0, 3200.0, 3200.0, 0.0], 0.1);
                let t = Cliffs { cell, levels: levels.clone(), omega2, kappa: 0.02 };
                let (raw, panic) = run_chain::<B64, f64, _>(t, vec![0.3 * cell, 0.4], 0.8, sd + 40, &[(steps.0 + 6, 0)], Some(0.4));
                out.push(Job { label: "cliffs-up/f64".into(), raw, panic, own: OwnN::Cliffs { cell, levels, omega2, kappa: 0.02 }, tol: 1e-11 });
            }
            // a large additive constant of the log-density (f64): every energy the chain handles is ~ -2.5e8 / +3e9, every
            // DIFFERENCE it acts on (slice, divergence bound, acceptance statistic) is O(1): the differences must be taken in f64
            for (k, c) in [-2.5e8, 3e9].into_iter().enumerate() {
                let prec = rand_prec(2, &mut s, 2.0);
                let (raw, panic) = run_chain::<B64, f64, _>(GaussPC { prec: prec.clone(), c }, vec![0.4, -0.7], 0.8, sd + 50 + k as u64, &[(steps.0, steps.1)], None);
                out.push(Job { label: format!("gaussPC{k}/f64"), raw, panic, own: OwnN::GaussPC { prec, c }, tol: 1e-11 });
            }
            // teleports: `position` assigned between run() calls (a warmed-up chain restarted elsewhere, three times)
            {
                let prec = rand_prec(3, &mut s, 3.0);
                let tp = [None, Some(vec![1.5, -2.0, 0.7]), Some(vec![-0.4, 0.3, 2.2]), Some(vec![0.0, 0.0, 0.0])];
                let (raw, panic) = run_chain_tp::<B64, f64, _>(GaussP { prec: prec.clone() }, vec![0.3, 0.2, -0.1], 0.8, sd + 60, &[(4, 4), (3, 0), (3, 2), (2, 0)], None, &tp);
                out.push(Job { label: "teleport3/f64".into(), raw, panic, own: OwnN::GaussP { prec }, tol: 1e-11 });
                let tp = [None, Some(vec![-1.0, 1.2]), Some(vec![0.6, 0.1])];
                let (raw, panic) = run_chain_tp::<B32, f32, _>(Rosenbrock2D::<f32> { a: 1.0, b: 10.0 }, vec![0.2, 0.1], 0.8, sd + 61, &[(4, 3), (4, 0), (4, 0)], None, &tp);
                out.push(Job { label: "teleport-rosen/f32".into(), raw, panic, own: OwnN::Rosen2 { a: 1.0, b: 10.0 }, tol: 5e-4 });
            }
            // immediate U-turn: very narrow Gaussian, big forced step
            let narrow = vec![vec![400.0, 0.0], [0.0, 400.0].to_vec()];
            let (raw, panic) = run_chain::<B64, f64, _>(GaussP { prec: narrow.clone() }, vec![0.01, -0.02], 0.8, sd + 6, &[(6, 0)], Some(0.09));
            out.push(Job { label: "uturn-now/f64".into(), raw, panic, own: OwnN::GaussP { prec: narrow }, tol: 1e-11 });
        }
        // divergences: energy error above 1000 after one step
        let (raw, panic) = run_chain::<B64, f64, _>(Steep { c: 1e3 }, vec![0.5, -0.4], 0.8, sd + 7, &[(6, 0)], Some(0.5 + rep as f64));
        out.push(Job { label: "steep-divergent/f64".into(), raw, panic, own: OwnN::Steep { c: 1e3 }, tol: 1e-11 });
        let (raw, panic) = run_chain::<B32, f32, _>(Steep { c: 1e3 }, vec![0.5, -0.4], 0.8, sd + 8, &[(steps.0, steps.1)], None);
        out.push(Job { label: "steep/f32".into(), raw, panic, own: OwnN::Steep { c: 1e3 }, tol: 5e-4 });
        // NaN region (log of a negative number) and -inf boundary
        let (raw, panic) = run_chain::<B64, f64, _>(HalfLineN, vec![0.7, 1.5], 0.8, sd + 9, &[(steps.0, steps.1)], None);
        out.push(Job { label: "halfline/f64".into(), raw, panic, own: OwnN::HalfLine, tol: 1e-11 });
        let (raw, panic) = run_chain::<B64, f64, _>(HalfLineN, vec![0.7, 1.5], 0.8, sd + 10, &[(8, 0)], Some(3.0));
        out.push(Job { label: "halfline-bigstep/f64".into(), raw, panic, own: OwnN::HalfLine, tol: 1e-11 });
        let (raw, panic) = run_chain::<B64, f64, _>(HalfLineN, vec![0.7, 1.5], 0.8, sd + 11, &[(4, 0)], Some(1e200));
        out.push(Job { label: "halfline-overflow/f64".into(), raw, panic, own: OwnN::HalfLine, tol: 1e-11 });
        // uniform box written as a masked constant (no gradient entry in the graph), start-up heuristic and forced step
        let (raw, panic) = run_chain::<B64, f64, _>(BoxN, vec![0.3, 0.6], 0.8, sd + 12, &[(steps.0, steps.1)], None);
        out.push(Job { label: "box/f64".into(), raw, panic, own: OwnN::BoxU, tol: 1e-11 });
        let (raw, panic) = run_chain::<B32, f32, _>(BoxN, vec![0.3, 0.6], 0.8, sd + 13, &[(6, 0)], Some(0.15));
        out.push(Job { label: "box/f32".into(), raw, panic, own: OwnN::BoxU, tol: 5e-4 });
        let (raw, panic) = run_chain::<B64, f64, _>(BoxLeafN, vec![0.3, 0.6], 0.8, sd + 14, &[(6, 2)], None);
        out.push(Job { label: "boxleaf/f64".into(), raw, panic, own: OwnN::BoxU, tol: 1e-11 });
    }
    out
}

pub fn record(args: &[String]) {
    let seed = arg_u64(args, "--seed", 1);
    let thorough = args.iter().any(|a| a == "--thorough");
    let dir = arg(args, "--dir").unwrap().to_string();
    std::fs::create_dir_all(&dir).unwrap();
    let mut summary = vec![];
    for (k, job) in jobs(seed, thorough, false).into_iter().enumerate() {
        let p = project(&job.raw, &job.own, job.tol);
        let path = format!("{dir}/tree_{k:03}.ndjson");
        let mut out = NdjsonOut::create(&path);
        for e in &p.tree {
            out.push(e);
        }
        let n = out.finish();
        let count = |name: &str| p.tree.iter().filter(|e| e["e"] == name).count();
        summary.push(json!({"label": job.label, "path": path, "events": n, "panic": job.panic, "depth_max": p.depth_max, "moved": p.moved,
            "transitions": count("begin"), "leaves": count("leaf"), "merges": count("merge"), "early": count("early"),
            "diverged_leaves": p.tree.iter().filter(|e| e["e"] == "leaf" && e["s"] == 0).count(),
            "uturn_inner": p.tree.iter().filter(|e| e["e"] == "merge" && e["s1"] == 1 && e["s2"] == 1 && e["s"] == 0).count()}));
    }
    println!("{}", json!({"summary": true, "jobs": Value::Array(summary)}));
}

// ---------------------------------------------------------------------------------------------
// spec -> impl: build_tree on a SCRIPTED target (spec/Replay_NutsTree.tla)

/// The target of Replay_NutsTree.tla: the a-coordinate of the position is the trajectory offset; the
/// log-density and the gradient at an offset come from tables that TLC derived from the script.
struct Script {
    v: i64,
    /// index |offset|: joint log-density the point shall have
    joint: Vec<f64>,
    /// index |offset|: doubled b-momentum the trajectory has there
    pd: Vec<f64>,
    /// index |offset|: b-component of the scripted gradient
    g: Vec<f64>,
}
impl Script {
    fn index(&self, a: f64) -> usize {
        let k = a.round();
        let i = k.abs() as usize;
        if (a - k).abs() > 1e-9 || (k != 0.0 && (k > 0.0) != (self.v > 0)) || i >= self.joint.len() {
            panic!("scripted target evaluated off the script: a = {a}");
        }
        i
    }
}
impl GradientTarget<f64, B64> for Script {
    fn unnorm_logp(&self, x: Tensor<B64, 1>) -> Tensor<B64, 1> {
        self.unnorm_logp_and_grad(x).0
    }
    fn unnorm_logp_and_grad(&self, x: Tensor<B64, 1>) -> (Tensor<B64, 1>, Tensor<B64, 1>) {
        let dev = x.device();
        let p: Vec<f64> = x.into_data().to_vec::<f64>().unwrap();
        let i = self.index(p[0]);
        let pb = self.pd[i] / 2.0;
        // joint = logp - |mom|^2 / 2 with mom = (1, pb)
        let logp = self.joint[i] + 0.5 * (1.0 + pb * pb);
        (Tensor::<B64, 1>::from_data(TensorData::new(vec![logp], [1]), &dev), Tensor::<B64, 1>::from_data(TensorData::new(vec![0.0, self.g[i]], [2]), &dev))
    }
}

const LEVEL_JOINT: [f64; 5] = [-1.0, -1.5, -50.0, -5000.0, 3000.0];

pub fn replay(args: &[String]) {
    use std::collections::BTreeMap;
    let rows = read_ndjson(&args[0]);
    let seeds = arg_u64(args, "--seeds", 6);
    // group TLC's results by script
    let mut cases: BTreeMap<String, Vec<&Value>> = BTreeMap::new();
    for r in &rows {
        let key = json!([r["v"], r["j"], r["p0"], r["lev"], r["pp"]]).to_string();
        cases.entry(key).or_default().push(r);
    }
    let dev = <B64 as Backend>::Device::default();
    let (mut evals, mut deep, mut uturn_stops, mut both_cands) = (0u64, 0u64, 0u64, 0u64);
    let mut bad: Vec<Value> = vec![];
    for (key, rs) in &cases {
        let r0 = rs[0];
        let (v, j) = (r0["v"].as_i64().unwrap(), r0["j"].as_u64().unwrap() as usize);
        let ints = |x: &Value| -> Vec<f64> { x.as_array().unwrap().iter().map(|y| y.as_i64().unwrap() as f64).collect() };
        let (lev, pp, g, b2) = (ints(&r0["lev"]), ints(&r0["pp"]), ints(&r0["g"]), ints(&r0["b2"]));
        let p0 = r0["p0"].as_i64().unwrap() as f64;
        // the deterministic part of the result is the same in every behaviour of the specification
        let det = |r: &Value| (r["n"].as_u64().unwrap(), r["s"].as_bool().unwrap(), r["na"].as_u64().unwrap());
        if rs.iter().any(|r| det(r) != det(r0)) {
            tool_error(&format!("specification gives two different (n', s', n_alpha) for script {key}"));
        }
        let (en, es, ena) = det(r0);
        let cands: Vec<i64> = rs.iter().map(|r| r["cand"].as_i64().unwrap()).collect();
        let mut joint = vec![-1.0];
        joint.extend(lev.iter().map(|l| LEVEL_JOINT[*l as usize]));
        let mut pd = vec![p0];
        pd.extend(pp.iter());
        let mut gg = vec![0.0];
        gg.extend(g.iter());
        let alpha_expected: f64 = (1..=ena as usize).map(|i| (joint[i] + 1.0).exp().min(1.0)).sum();
        if ena as usize == 1 << j && j >= 2 {
            deep += 1;
        }
        if !es && (1..=ena as usize).all(|i| lev[i - 1] != 3.0) {
            uturn_stops += 1;
        }
        let mut seen = std::collections::BTreeSet::new();
        for sd in 0..seeds {
            let target = Script { v, joint: joint.clone(), pd: pd.clone(), g: gg.clone() };
            let mut rng = <rand::rngs::SmallRng as rand::SeedableRng>::seed_from_u64(1000 * sd + 17);
            evals += 1;
            let res = catch(|| {
                let pos = Tensor::<B64, 1>::from_data(TensorData::new(vec![0.0, 0.0], [2]), &dev);
                let mom = Tensor::<B64, 1>::from_data(TensorData::new(vec![1.0, p0 / 2.0], [2]), &dev);
                let grad = Tensor::<B64, 1>::from_data(TensorData::new(vec![0.0, 0.0], [2]), &dev);
                let (p, n, s, alpha, na) = mini_mcmc::nuts::verif_api::build_tree::<B64, f64, _>(pos, mom, grad, -2.0, v as i8, j, 1.0, &target, -1.0, &mut rng);
                (p.into_data().to_vec::<f64>().unwrap(), n, s, alpha, na)
            });
            let why = match res {
                Err(e) => Some(format!("panic: {e}")),
                Ok((p, n, s, alpha, na)) => {
                    let k = p[0].round() as i64;
                    seen.insert(k);
                    if (n as u64, s, na as u64) != (en, es, ena) {
                        Some(format!("(n', s', n_alpha) = ({n}, {s}, {na}), specification: ({en}, {es}, {ena})"))
                    } else if !cands.contains(&k) || (p[0] - k as f64).abs() > 1e-9 {
                        Some(format!("candidate at offset {} is not a result of the specification (possible: {:?})", p[0], cands))
                    } else if k != 0 && p[1] != b2[k.unsigned_abs() as usize - 1] / 2.0 {
                        Some(format!("candidate position b = {} but the trajectory has b = {} at offset {k}", p[1], b2[k.unsigned_abs() as usize - 1] / 2.0))
                    } else if (alpha - alpha_expected).abs() > 1e-9 {
                        Some(format!("alpha' = {alpha}, sum over the {ena} leaves built = {alpha_expected}"))
                    } else {
                        None
                    }
                }
            };
            if let Some(w) = why {
                if bad.len() < 40 {
                    bad.push(json!({"case": {"v": v, "j": j, "p0": p0, "lev": r0["lev"], "pp": r0["pp"]}, "seed": sd, "why": w,
                        "expected": {"n": en, "s": es, "na": ena, "cands": cands}, "rows": rs}));
                }
                break;
            }
        }
        if seen.len() >= 2 {
            both_cands += 1;
        }
    }
    println!("{}", json!({"summary": true, "cases": cases.len(), "evaluations": evals, "full_depth_trees": deep, "stopped_by_uturn": uturn_stops,
        "cases_with_two_candidates_seen": both_cands, "bad": bad}));
}
