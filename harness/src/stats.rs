//! C11 / C12 — split R-hat, ESS and the run summary.  Expected values are exact fractions
//! computed by TLC from spec/Stats.tla (MC_Stats, Gen_StatsBig) and spec/BasicStats.tla.
use crate::util::*;
use mini_mcmc::stats::{basic_stats, split_rhat_mean_ess, RunStats};
use ndarray::{Array1, Array3};
use serde_json::{json, Value};

struct Variant {
    name: &'static str,
    p_total: usize,
    p_idx: usize,
    alpha: f32,
    beta: f32,
}

fn build(a: &[Vec<i64>], v: &Variant, salt: u64) -> Array3<f32> {
    let c = a.len();
    let n = a[0].len();
    let mut s = salt;
    Array3::from_shape_fn((c, n, v.p_total), |(ci, t, p)| {
        if p == v.p_idx {
            v.alpha * a[ci][t] as f32 + v.beta
        } else if p % 2 == 0 {
            // pseudo-random filler, different for different salts
            ((splitmix(&mut s) % 1000) as f32) * 0.37 - 100.0
        } else {
            4.25 // constant parameter: its own diagnostics are NaN
        }
    })
}

pub fn replay(args: &[String]) {
    let cases = read_ndjson(&args[0]);
    let big = args.iter().any(|a| a == "--big");
    let variants: Vec<Variant> = if big {
        vec![
            Variant { name: "plain", p_total: 1, p_idx: 0, alpha: 1.0, beta: 0.0 },
            Variant { name: "affine", p_total: 2, p_idx: 1, alpha: -2.5, beta: 7.0 },
            // location >> spread (integer-valued, so sums stay exact in f32): a one-pass variance cancels here
            Variant { name: "far", p_total: 2, p_idx: 1, alpha: 1.0, beta: 3000.0 },
            // a million spreads away from the origin: the values themselves are still exact in f32, sums of more than 16 are not
            Variant { name: "very-far", p_total: 2, p_idx: 0, alpha: 1.0, beta: 1048576.0 },
            Variant { name: "among-others", p_total: 8, p_idx: 5, alpha: 1.0, beta: 0.0 },
            Variant { name: "tiny", p_total: 2, p_idx: 1, alpha: 9.5367431640625e-7, beta: 0.0 },
        ]
    } else {
        vec![
            Variant { name: "plain", p_total: 1, p_idx: 0, alpha: 1.0, beta: 0.0 },
            Variant { name: "among-others", p_total: 3, p_idx: 1, alpha: 1.0, beta: 0.0 },
            Variant { name: "affine", p_total: 2, p_idx: 0, alpha: -2.5, beta: 7.0 },
            Variant { name: "scaled", p_total: 4, p_idx: 3, alpha: 0.001, beta: 0.01 },
            // any scale: units of 2^-20 (W of the order of 1e-12) and of 2^20 -- powers of two, the scaled draws are exact
            Variant { name: "tiny", p_total: 2, p_idx: 1, alpha: 9.5367431640625e-7, beta: 0.0 },
            Variant { name: "huge", p_total: 2, p_idx: 0, alpha: 1048576.0, beta: 0.0 },
            Variant { name: "far", p_total: 2, p_idx: 1, alpha: 1.0, beta: 3000.0 },
            Variant { name: "very-far", p_total: 2, p_idx: 0, alpha: 1.0, beta: 1048576.0 },
        ]
    };
    // the diagnostics fan out over parameters with rayon: the same call from a plain thread (default pool) and from inside
    // pools of 1..3 threads (fewer jobs than parameters) -- the schedule is not an input of the diagnostics
    let mut pools: Vec<Option<(usize, rayon::ThreadPool)>> = vec![None];
    for k in if big { vec![1usize, 2, 3] } else { vec![1usize] } {
        pools.push(Some((k, rayon::ThreadPoolBuilder::new().num_threads(k).build().unwrap())));
    }
    let mut evals = 0u64;
    let (mut rhat_bad, mut ess_bad, mut sum_bad) = (vec![], vec![], vec![]);
    let (mut n_rhat, mut n_ess, mut n_frag, mut n_undef) = (0u64, 0u64, 0u64, 0u64);
    for c in &cases {
        let a: Vec<Vec<i64>> = c["a"].as_array().unwrap().iter()
            .map(|r| r.as_array().unwrap().iter().map(|x| x.as_i64().unwrap()).collect()).collect();
        let def = c["def"].as_bool().unwrap();
        let half = a[0].len() / 2;
        let rtol: f64 = if half <= 500 { 1.0 / 65536.0 } else { 1.0 / 16384.0 };
        let f = |k: &str| c[k].as_i64().unwrap() as f64;
        let brief = || -> Value {
            if a[0].len() > 16 { json!({"case": c["case"], "C": a.len(), "N": a[0].len()}) } else { json!({"a": a}) }
        };
        for (v, pool) in variants.iter().flat_map(|v| pools.iter().map(move |p| (v, p))) {
            // a call from inside a small rayon pool is made with the variants that have enough parameters to share a job
            if pool.is_some() && v.p_total < 3 {
                continue;
            }
            let vname: String = match pool { None => v.name.to_string(), Some((k, _)) => format!("{} [called inside a {k}-thread rayon pool]", v.name) };
            // "far": the chain means themselves are only known to beta * 2^-24 in f32, which limits the between-chain term
            let tol = if v.name == "plain" || v.name == "among-others" { rtol } else if v.name == "far" || v.name == "very-far" { 5e-3 } else { rtol * 8.0 };
            let arr = build(&a, v, 1);
            let r = catch(|| match pool { None => split_rhat_mean_ess(arr.view()), Some((_, p)) => p.install(|| split_rhat_mean_ess(arr.view())) });
            evals += 1;
            let (rh, es) = match r {
                Ok(x) => x,
                Err(e) => {
                    rhat_bad.push(json!({"case": brief(), "variant": vname, "panic": e}));
                    continue;
                }
            };
            if !def {
                n_undef += 1;
                continue;
            }
            let r2 = (rh[v.p_idx] as f64).powi(2);
            let (e1, e2) = (f("rn") / f("rd"), f("rnu") / f("rd"));
            n_rhat += 1;
            let close = |x: f64, e: f64| (x - e).abs() <= tol * e.abs() + 1e-9;
            if !(close(r2, e1) || close(r2, e2)) && rhat_bad.len() < 20 {
                rhat_bad.push(json!({"case": brief(), "variant": vname, "rhat": rh[v.p_idx],
                    "rhat_sq": r2, "expected_sq": e1, "expected_sq_unbiasedW": e2}));
            }
            if c["frag"].as_bool().unwrap() {
                n_frag += 1;
            } else {
                n_ess += 1;
                // long arrays carry the clamped pair sums individually (their sum may exceed TLC's 31 bits)
                let out_sum: f64 = match c.get("pairs") {
                    Some(p) => p.as_array().unwrap().iter().map(|x| x.as_i64().unwrap() as f64).sum(),
                    None => f("out"),
                };
                let e = f("mn") * f("vn") / (2.0 * out_sum - f("vn"));
                let x = es[v.p_idx] as f64;
                // conditioning: ESS = m n / tau and tau = -1 + 2 sum(rho) can be close to zero (tau << 1: antithetic chains);
                // an absolute error in the f32 autocorrelations is magnified by 1 / |tau| = |ESS| / (m n)
                let kappa = (e / f("mn")).abs().max(1.0);
                let etol = (if v.name == "far" || v.name == "very-far" { 3e-2 } else { tol * 4.0 }) * kappa;
                if !close(x, e) && (x - e).abs() > etol * e.abs() && ess_bad.len() < 20 {
                    ess_bad.push(json!({"case": brief(), "variant": vname, "ess": x, "expected": e}));
                }
            }
            // the same draws as f64 / i64 values far from the origin (1e9: the spacing of f32 numbers there is 64): the
            // diagnostics are shift-invariant, and the element type is the caller's, not f32
            if v.name == "plain" && pool.is_none() {
                let shape = (a.len(), a[0].len(), 1usize);
                let a64 = ndarray::Array3::<f64>::from_shape_fn(shape, |(ci, t, _)| a[ci][t] as f64 + 1.0e9);
                let ai = ndarray::Array3::<i64>::from_shape_fn(shape, |(ci, t, _)| a[ci][t] + 1_700_000_000);
                for (ty, r) in [("f64 + 1e9", catch(|| RunStats::from(a64.view()))), ("i64 + 1.7e9", catch(|| RunStats::from(ai.view())))] {
                    match r {
                        Err(e) => sum_bad.push(json!({"case": brief(), "variant": ty, "runstats_panic": e})),
                        Ok(rs) => {
                            let same = |x: f32, y: f32| x == y || (x - y).abs() <= 1e-5 * y.abs().max(1e-30) || (x.is_nan() && y.is_nan());
                            if !same(rs.rhat.max, rh[0]) && rhat_bad.len() < 20 {
                                rhat_bad.push(json!({"case": brief(), "variant": ty, "runstats_rhat": rs.rhat.max, "same_draws_at_origin": rh[0]}));
                            }
                            if !same(rs.ess.max, es[0]) && ess_bad.len() < 20 {
                                ess_bad.push(json!({"case": brief(), "variant": ty, "runstats_ess": rs.ess.max, "same_draws_at_origin": es[0]}));
                            }
                        }
                    }
                }
            }
            // the array is a function of (chain, draw, parameter): the same values in column-major storage and as a view with
            // permuted axes (how a caller's array happens to lie in memory is not an input of the diagnostics)
            if pool.is_none() && (v.name == "among-others" || v.name == "affine") {
                use ndarray::ShapeBuilder;
                let (cc, nn, pp) = arr.dim();
                let mut col = Array3::<f32>::zeros((cc, nn, pp).f());
                col.assign(&arr);
                let perm = Array3::<f32>::from_shape_fn((pp, nn, cc), |(p, t, ci)| arr[(ci, t, p)]);
                let perm = perm.permuted_axes([2, 1, 0]);
                for (lname, view) in [("column-major", col.view()), ("permuted axes", perm.view())] {
                    evals += 1;
                    match catch(|| split_rhat_mean_ess(view)) {
                        Err(e) => rhat_bad.push(json!({"case": brief(), "variant": format!("{vname} {lname}"), "panic": e})),
                        Ok((rh3, es3)) => {
                            let same = |x: f32, y: f32| x == y || (x - y).abs() <= 1e-5 * x.abs().max(1e-30) || (x.is_nan() && y.is_nan());
                            if !(0..pp).all(|i| same(rh[i], rh3[i])) && rhat_bad.len() < 20 {
                                rhat_bad.push(json!({"case": brief(), "variant": format!("{vname} {lname}"), "rhat_row_major": rh.to_vec(), "rhat_this_layout": rh3.to_vec()}));
                            }
                            if !(0..pp).all(|i| same(es[i], es3[i])) && ess_bad.len() < 20 {
                                ess_bad.push(json!({"case": brief(), "variant": format!("{vname} {lname}"), "ess_row_major": es.to_vec(), "ess_this_layout": es3.to_vec()}));
                            }
                        }
                    }
                }
            }
            // independence of the other parameters' values
            if v.p_total > 1 && pool.is_none() {
                let arr2 = build(&a, v, 99);
                if let Ok((rh2, es2)) = catch(|| split_rhat_mean_ess(arr2.view())) {
                    // (equal infinities -- tau exactly zero -- are the same value)
                    let same = |x: f32, y: f32| x == y || (x - y).abs() <= 1e-5 * x.abs().max(1e-30) || (x.is_nan() && y.is_nan());
                    if !same(rh[v.p_idx], rh2[v.p_idx]) && rhat_bad.len() < 20 {
                        rhat_bad.push(json!({"case": brief(), "variant": vname, "other_params_changed_rhat": [rh[v.p_idx], rh2[v.p_idx]]}));
                    }
                    if !same(es[v.p_idx], es2[v.p_idx]) && ess_bad.len() < 20 {
                        ess_bad.push(json!({"case": brief(), "variant": vname, "other_params_changed_ess": [es[v.p_idx], es2[v.p_idx]]}));
                    }
                }
                // run summary = summary of the per-parameter values
                match catch(|| RunStats::from(arr.view())) {
                    Err(e) => sum_bad.push(json!({"case": brief(), "variant": vname, "runstats_panic": e})),
                    Ok(rs) => {
                        if rh.iter().all(|x| x.is_finite()) && es.iter().all(|x| x.is_finite()) {
                            let mx = rh.iter().cloned().fold(f32::MIN, f32::max);
                            let mn = rh.iter().cloned().fold(f32::MAX, f32::min);
                            if (rs.rhat.max != mx || rs.rhat.min != mn) && sum_bad.len() < 20 {
                                sum_bad.push(json!({"case": brief(), "variant": vname, "rhat_minmax": [rs.rhat.min, rs.rhat.max], "true": [mn, mx]}));
                            }
                        }
                    }
                }
            }
        }
    }
    println!("{}", json!({"summary": true, "cases": cases.len(), "evaluations": evals, "rhat_checked": n_rhat,
        "ess_checked": n_ess, "ess_fragile_skipped": n_frag, "undefined_only_no_panic": n_undef,
        "rhat_bad": rhat_bad, "ess_bad": ess_bad, "summary_bad": sum_bad}));
}

pub fn basic(args: &[String]) {
    let cases = read_ndjson(&args[0]);
    let mut bad = vec![];
    let mut n_finite = 0u64;
    for c in &cases {
        let s: Vec<f32> = c["s"].as_array().unwrap().iter()
            .map(|x| { let v = x.as_i64().unwrap(); if v == 99 { f32::NAN } else { v as f32 } }).collect();
        let n = s.len() as f64;
        let r = catch(|| basic_stats("x", Array1::from_vec(s.clone())));
        let bs = match r {
            Ok(b) => b,
            Err(e) => {
                if bad.len() < 20 {
                    bad.push(json!({"s": c["s"], "panic": e}));
                }
                continue;
            }
        };
        if c["nan"].as_bool().unwrap() {
            continue; // only "does not fail"
        }
        n_finite += 1;
        let f = |k: &str| c[k].as_i64().unwrap() as f64;
        let mean = f("sum") / n;
        let mids: Vec<f64> = c["mids"].as_array().unwrap().iter().map(|x| x.as_i64().unwrap() as f64).collect();
        let mut ok = bs.min as f64 == f("min") && bs.max as f64 == f("max") && (bs.mean as f64 - mean).abs() <= 1e-5 * mean.abs().max(1.0)
            && mids.contains(&(bs.median as f64));
        if s.len() >= 2 {
            let var = (n * f("sumsq") - f("sum") * f("sum")) / (n * (n - 1.0));
            ok = ok && ((bs.std as f64).powi(2) - var).abs() <= 1e-4 * var.max(1e-6);
        }
        if !ok && bad.len() < 20 {
            bad.push(json!({"s": c["s"], "observed": {"min": bs.min, "max": bs.max, "mean": bs.mean, "std": bs.std, "median": bs.median},
                "expected": c}));
        }
    }
    println!("{}", json!({"summary": true, "cases": cases.len(), "finite_checked": n_finite, "bad": bad}));
}
