//! C15 — built-in densities, gradients and the proposal density.  Expected values are exact
//! affine forms / rational gradients computed by TLC from spec/Dist.tla on integer lattices
//! (with dyadic scalings); only ln(2 pi), ln 2 and ln(det) are evaluated here, in f64.
use crate::util::*;
use burn::backend::{Autodiff, NdArray};
use burn::prelude::*;
use burn::tensor::backend::AutodiffBackend;
use mini_mcmc::distributions::*;
use ndarray::{arr1, arr2};
use num_traits::Float;
use rand::rngs::SmallRng;
use rand::SeedableRng;
use rand_distr::{Distribution, StandardNormal};
use serde_json::{json, Value};

type B32 = Autodiff<NdArray<f32>>;
type B64 = Autodiff<NdArray<f64>>;
const LN2PI: f64 = 1.8378770664093453;
const LN2: f64 = std::f64::consts::LN_2;

struct Acc {
    evals: u64,
    bad: Vec<Value>,
}
impl Acc {
    fn cmp(&mut self, c: &Value, what: &str, got: f64, want: f64, tol: f64) {
        self.evals += 1;
        let ok = (got - want).abs() <= tol || (got.is_infinite() && got == want);
        if !ok && self.bad.iter().filter(|b| b["what"] == what).count() < 3 && self.bad.len() < 60 {
            self.bad.push(json!({"case": c, "what": what, "observed": got, "expected": want, "tol": tol}));
        }
    }
}
fn ints(v: &Value) -> Vec<i64> {
    v.as_array().unwrap().iter().map(|x| x.as_i64().unwrap()).collect()
}

fn batch_grad<B: AutodiffBackend, T: Float + burn::tensor::Element, G: BatchedGradientTarget<T, B>>(g: &G, rows: &[Vec<f64>]) -> (Vec<f64>, Vec<f64>) {
    let n = rows.len();
    let d = rows[0].len();
    let flat: Vec<f64> = rows.iter().flatten().cloned().collect();
    let pos = Tensor::<B, 2>::from_data(TensorData::new(flat, [n, d]), &B::Device::default()).require_grad();
    let lp = g.unnorm_logp_batch(pos.clone());
    let vals = lp.clone().into_data().convert::<f64>().to_vec::<f64>().unwrap();
    // the gradient path HMC uses
    let grads = pos.grad(&lp.backward()).unwrap();
    let gv = Tensor::<B, 2>::from_inner(grads).into_data().convert::<f64>().to_vec::<f64>().unwrap();
    (vals, gv)
}
fn single_grad<B: AutodiffBackend, T: Float + burn::tensor::Element, G: GradientTarget<T, B>>(g: &G, x: &[f64]) -> (f64, Vec<f64>, f64) {
    let pos = Tensor::<B, 1>::from_data(TensorData::new(x.to_vec(), [x.len()]), &B::Device::default());
    let v0 = g.unnorm_logp(pos.clone()).into_data().convert::<f64>().to_vec::<f64>().unwrap()[0];
    let (lp, gr) = g.unnorm_logp_and_grad(pos);
    let v = lp.into_data().convert::<f64>().to_vec::<f64>().unwrap()[0];
    (v, gr.into_data().convert::<f64>().to_vec::<f64>().unwrap(), v0)
}
fn filler_rows(n: usize, d: usize, at: usize, x: &[f64], salt: u64) -> Vec<Vec<f64>> {
    let mut s = salt;
    (0..n).map(|r| if r == at { x.to_vec() } else { (0..d).map(|_| (splitmix(&mut s) % 9) as f64 - 4.0).collect() }).collect()
}

fn gauss(c: &Value, acc: &mut Acc) {
    let cov = &c["cov"];
    let (a, b, d) = (cov["a"].as_i64().unwrap() as f64, cov["b"].as_i64().unwrap() as f64, cov["d"].as_i64().unwrap() as f64);
    let m = ints(&c["m"]);
    let x = ints(&c["x"]);
    let e = c["e"].as_i64().unwrap();
    let s = 2f64.powi(e as i32);
    let det = c["det"].as_i64().unwrap() as f64;
    let unnorm = c["rn"].as_i64().unwrap() as f64 / c["rd"].as_i64().unwrap() as f64;
    let konst = c["c2pi"].as_i64().unwrap() as f64 * LN2PI
        + c["lndetn"].as_i64().unwrap() as f64 / c["lndetd"].as_i64().unwrap() as f64 * det.ln()
        + c["ln2c"].as_i64().unwrap() as f64 * LN2;
    let norm = unnorm + konst;
    let scale = c["mag"].as_i64().unwrap() as f64 / (2.0 * det) + konst.abs() + 1.0;
    let (t32, t64) = (3e-5 * scale, 1e-10 * scale);
    let gx = c["gxn"].as_i64().unwrap() as f64 / (det * s);
    let gy = c["gyn"].as_i64().unwrap() as f64 / (det * s);
    let gscale = (c["mag"].as_i64().unwrap() as f64).sqrt().max(1.0) * (a.max(d)).sqrt() / (det * s) + (gx.abs() + gy.abs());
    let (sm, sx) = ([m[0] as f64 * s, m[1] as f64 * s], [x[0] as f64 * s, x[1] as f64 * s]);
    let sc = [[a * s * s, b * s * s], [b * s * s, d * s * s]];
    // Gaussian2D (ndarray based)
    let g64 = Gaussian2D::<f64> { mean: arr1(&sm), cov: arr2(&sc) };
    acc.cmp(c, "Gaussian2D<f64>::logp", Normalized::logp(&g64, &sx), norm, t64);
    acc.cmp(c, "Gaussian2D<f64>::unnorm_logp", Target::unnorm_logp(&g64, &sx), unnorm, t64);
    let g32 = Gaussian2D::<f32> { mean: arr1(&[sm[0] as f32, sm[1] as f32]), cov: arr2(&[[sc[0][0] as f32, sc[0][1] as f32], [sc[1][0] as f32, sc[1][1] as f32]]) };
    let sx32 = [sx[0] as f32, sx[1] as f32];
    acc.cmp(c, "Gaussian2D<f32>::logp", Normalized::logp(&g32, &sx32) as f64, norm, t32);
    acc.cmp(c, "Gaussian2D<f32>::unnorm_logp", Target::unnorm_logp(&g32, &sx32) as f64, unnorm, t32);
    // DiffableGaussian2D (tensor based): batched, single, gradients
    let salt = (x[0] * 7 + x[1] * 13 + e * 31 + m[0]) as u64;
    for &n in &[1usize, 2, 7, 64] {
        if n > 2 && (salt % 3 != 0) {
            continue;
        }
        let at = (salt as usize) % n;
        let rows: Vec<Vec<f64>> = filler_rows(n, 2, at, &[x[0] as f64, x[1] as f64], salt).into_iter().map(|r| vec![r[0] * s, r[1] * s]).collect();
        let d64 = DiffableGaussian2D::<f64>::new(sm, sc);
        let (v, g) = batch_grad::<B64, f64, _>(&d64, &rows);
        acc.cmp(c, "DiffableGaussian2D<f64,NdArray<f64>> batch logp", v[at], norm, t32);
        acc.cmp(c, "DiffableGaussian2D<f64,NdArray<f64>> batch grad x", g[2 * at], gx, 3e-5 * gscale);
        acc.cmp(c, "DiffableGaussian2D<f64,NdArray<f64>> batch grad y", g[2 * at + 1], gy, 3e-5 * gscale);
        // the same density translated by an offset that f32 cannot hold: in DOUBLE precision (f64 scalars on an f64 backend)
        // the log-density and its gradient are translation-equivariant far beyond f32 accuracy
        let off = [12345.7f64, -9876.5];
        let d64s = DiffableGaussian2D::<f64>::new([sm[0] + off[0], sm[1] + off[1]], sc);
        let rows_s: Vec<Vec<f64>> = rows.iter().map(|r| vec![r[0] + off[0], r[1] + off[1]]).collect();
        let (v, g) = batch_grad::<B64, f64, _>(&d64s, &rows_s);
        // (the translated arguments themselves carry an absolute error of 2e-12: budget 1e-6 relative to the gradient scale)
        acc.cmp(c, "DiffableGaussian2D<f64,NdArray<f64>> translated batch logp", v[at], norm, 1e-6 * (norm.abs() + 1.0) + 1e-6 * gscale * s);
        acc.cmp(c, "DiffableGaussian2D<f64,NdArray<f64>> translated batch grad x", g[2 * at], gx, 1e-6 * gscale);
        acc.cmp(c, "DiffableGaussian2D<f64,NdArray<f64>> translated batch grad y", g[2 * at + 1], gy, 1e-6 * gscale);
        if n == 1 {
            let (v1, g1, _) = single_grad::<B64, f64, _>(&d64s, &[sx[0] + off[0], sx[1] + off[1]]);
            acc.cmp(c, "DiffableGaussian2D<f64> translated single logp", v1, norm, 1e-6 * (norm.abs() + 1.0) + 1e-6 * gscale * s);
            acc.cmp(c, "DiffableGaussian2D<f64> translated single grad x", g1[0], gx, 1e-6 * gscale);
            acc.cmp(c, "DiffableGaussian2D<f64> translated single grad y", g1[1], gy, 1e-6 * gscale);
        }
        let d32 = DiffableGaussian2D::<f32>::new([sm[0] as f32, sm[1] as f32], [[sc[0][0] as f32, sc[0][1] as f32], [sc[1][0] as f32, sc[1][1] as f32]]);
        let (v, g) = batch_grad::<B32, f32, _>(&d32, &rows);
        acc.cmp(c, "DiffableGaussian2D<f32,NdArray<f32>> batch logp", v[at], norm, t32);
        acc.cmp(c, "DiffableGaussian2D<f32,NdArray<f32>> batch grad x", g[2 * at], gx, 3e-5 * gscale);
        acc.cmp(c, "DiffableGaussian2D<f32,NdArray<f32>> batch grad y", g[2 * at + 1], gy, 3e-5 * gscale);
        if n == 1 {
            let (v1, g1, v0) = single_grad::<B64, f64, _>(&d64, &sx);
            acc.cmp(c, "DiffableGaussian2D<f64> single logp", v1, norm, t32);
            acc.cmp(c, "DiffableGaussian2D<f64> single logp (no grad)", v0, norm, t32);
            acc.cmp(c, "DiffableGaussian2D<f64> single grad x", g1[0], gx, 3e-5 * gscale);
            acc.cmp(c, "DiffableGaussian2D<f64> single grad y", g1[1], gy, 3e-5 * gscale);
            let (v1, g1, _) = single_grad::<B32, f32, _>(&d32, &sx);
            acc.cmp(c, "DiffableGaussian2D<f32> single logp", v1, norm, t32);
            acc.cmp(c, "DiffableGaussian2D<f32> single grad x", g1[0], gx, 3e-5 * gscale);
            acc.cmp(c, "DiffableGaussian2D<f32> single grad y", g1[1], gy, 3e-5 * gscale);
        }
    }
}

fn iso(c: &Value, acc: &mut Acc) {
    let e = c["e"].as_i64().unwrap();
    let d = c["D"].as_i64().unwrap() as f64;
    let std = 2f64.powi(e as i32);
    let from: Vec<f64> = ints(&c["from"]).iter().map(|v| *v as f64).collect();
    let to: Vec<f64> = ints(&c["to"]).iter().map(|v| *v as f64).collect();
    let quad = -(c["ssd"].as_i64().unwrap() as f64) / (2.0 * std * std);
    let konst = c["c2pin"].as_i64().unwrap() as f64 / c["c2pid"].as_i64().unwrap() as f64 * LN2PI + c["ln2c"].as_i64().unwrap() as f64 * LN2;
    let want = quad + konst;
    let scale = quad.abs() + konst.abs() + 1.0;
    let p64 = IsotropicGaussian::<f64>::new(std);
    acc.cmp(c, "IsotropicGaussian<f64>::logp(from,to)", Proposal::logp(&p64, &from, &to), want, 1e-10 * scale);
    acc.cmp(c, "IsotropicGaussian<f64>::logp(to,from)", Proposal::logp(&p64, &to, &from), want, 1e-10 * scale);
    let tq = -(c["sst"].as_i64().unwrap() as f64) / (2.0 * std * std);
    acc.cmp(c, "IsotropicGaussian<f64>::unnorm_logp", Target::unnorm_logp(&p64, &to), tq, 1e-10 * (tq.abs() + 1.0));
    let p32 = IsotropicGaussian::<f32>::new(std as f32);
    let (f32v, t32v): (Vec<f32>, Vec<f32>) = (from.iter().map(|v| *v as f32).collect(), to.iter().map(|v| *v as f32).collect());
    acc.cmp(c, "IsotropicGaussian<f32>::logp(from,to)", Proposal::logp(&p32, &f32v, &t32v) as f64, want, 3e-5 * scale);
    acc.cmp(c, "IsotropicGaussian<f32>::logp(to,from)", Proposal::logp(&p32, &t32v, &f32v) as f64, want, 3e-5 * scale);
    // sample = from + std * N(0,1) per coordinate, reproducible under set_seed
    let seed = 1000 + (d as u64) * 17 + (e + 20) as u64;
    let mut a = IsotropicGaussian::<f64>::new(std).set_seed(seed);
    let mut b = IsotropicGaussian::<f64>::new(std).set_seed(seed);
    let (sa, sb) = (a.sample(&from), b.sample(&from));
    let mut rng = SmallRng::seed_from_u64(seed);
    for k in 0..from.len() {
        let z: f64 = StandardNormal.sample(&mut rng);
        acc.cmp(c, "IsotropicGaussian sample = from + std z (seeded)", sa[k], from[k] + std * z, 1e-9 * (std + from[k].abs() + 1.0));
        acc.cmp(c, "IsotropicGaussian set_seed reproducible", sb[k], sa[k], 0.0);
    }
    if sa.len() != from.len() {
        acc.cmp(c, "IsotropicGaussian sample length", sa.len() as f64, from.len() as f64, 0.0);
    }
}

fn rosen2(c: &Value, acc: &mut Acc) {
    let (a, b) = (c["A"].as_i64().unwrap() as f64, c["B"].as_i64().unwrap() as f64);
    let x: Vec<f64> = ints(&c["x"]).iter().map(|v| *v as f64).collect();
    let v = c["v"].as_i64().unwrap() as f64;
    let g: Vec<f64> = ints(&c["g"]).iter().map(|v| *v as f64).collect();
    let sc = v.abs() + 1.0;
    let gs = g[0].abs() + g[1].abs() + b * 16.0 + 1.0;
    let salt = (x[0] * 5.0 + x[1] * 11.0 + 40.0) as u64;
    for &n in &[1usize, 3, 64] {
        if n > 3 && salt % 4 != 0 {
            continue;
        }
        let at = salt as usize % n;
        let rows = filler_rows(n, 2, at, &x, salt);
        let r64 = Rosenbrock2D::<f64> { a, b };
        let (vv, gg) = batch_grad::<B64, f64, _>(&r64, &rows);
        acc.cmp(c, "Rosenbrock2D<f64> batch logp", vv[at], v, 1e-10 * sc);
        acc.cmp(c, "Rosenbrock2D<f64> batch grad x", gg[2 * at], g[0], 1e-9 * gs);
        acc.cmp(c, "Rosenbrock2D<f64> batch grad y", gg[2 * at + 1], g[1], 1e-9 * gs);
        let r32 = Rosenbrock2D::<f32> { a: a as f32, b: b as f32 };
        let (vv, gg) = batch_grad::<B32, f32, _>(&r32, &rows);
        acc.cmp(c, "Rosenbrock2D<f32> batch logp", vv[at], v, 3e-5 * sc);
        acc.cmp(c, "Rosenbrock2D<f32> batch grad x", gg[2 * at], g[0], 3e-5 * gs);
        acc.cmp(c, "Rosenbrock2D<f32> batch grad y", gg[2 * at + 1], g[1], 3e-5 * gs);
        if n == 1 {
            let (v1, g1, v0) = single_grad::<B64, f64, _>(&r64, &x);
            acc.cmp(c, "Rosenbrock2D<f64> single logp", v1, v, 1e-10 * sc);
            acc.cmp(c, "Rosenbrock2D<f64> single logp (no grad)", v0, v, 1e-10 * sc);
            acc.cmp(c, "Rosenbrock2D<f64> single grad x", g1[0], g[0], 1e-9 * gs);
            acc.cmp(c, "Rosenbrock2D<f64> single grad y", g1[1], g[1], 1e-9 * gs);
            let (v1, g1, _) = single_grad::<B32, f32, _>(&r32, &x);
            acc.cmp(c, "Rosenbrock2D<f32> single logp", v1, v, 3e-5 * sc);
            acc.cmp(c, "Rosenbrock2D<f32> single grad x", g1[0], g[0], 3e-5 * gs);
            acc.cmp(c, "Rosenbrock2D<f32> single grad y", g1[1], g[1], 3e-5 * gs);
        }
    }
}

fn rosen_n(c: &Value, acc: &mut Acc) {
    let x: Vec<f64> = ints(&c["x"]).iter().map(|v| *v as f64).collect();
    let v = c["v"].as_i64().unwrap() as f64;
    let g: Vec<f64> = ints(&c["g"]).iter().map(|v| *v as f64).collect();
    let d = x.len();
    let sc = v.abs() + 1.0;
    let gs: f64 = g.iter().map(|t| t.abs()).sum::<f64>() + 1700.0;
    let salt = x.iter().fold(7u64, |a, t| a.wrapping_mul(31).wrapping_add((*t + 5.0) as u64));
    let n = [1usize, 4, 33][(salt % 3) as usize];
    let at = salt as usize % n;
    let rows = filler_rows(n, d, at, &x, salt);
    let (vv, gg) = batch_grad::<B64, f64, _>(&RosenbrockND {}, &rows);
    acc.cmp(c, "RosenbrockND f64 batch logp", vv[at], v, 1e-10 * sc);
    for k in 0..d {
        acc.cmp(c, "RosenbrockND f64 batch grad", gg[d * at + k], g[k], 1e-9 * gs);
    }
    let (vv, gg) = batch_grad::<B32, f32, _>(&RosenbrockND {}, &rows);
    acc.cmp(c, "RosenbrockND f32 batch logp", vv[at], v, 3e-5 * sc);
    for k in 0..d {
        acc.cmp(c, "RosenbrockND f32 batch grad", gg[d * at + k], g[k], 3e-5 * gs);
    }
}

/// One history of spec/PropStream.tla replayed through real proposal objects: every draw that the specification annotates with
/// (seed, pos) must be `from + std * z`, z the pos-th block of StandardNormal draws of SmallRng::seed_from_u64(seed) -- whatever
/// the object did before it was seeded (fresh, used, seeded before, cloned from a used object).
fn stream<T>(c: &Value, acc: &mut Acc, ty: &str)
where
    T: Float + std::ops::AddAssign + std::fmt::Debug,
    StandardNormal: Distribution<T>,
    IsotropicGaussian<T>: Proposal<T, T> + Clone,
{
    let seed_of = |name: &str| -> u64 { match name { "a" => 0, "b" => u64::MAX, "c" => 0x9E37_79B9_7F4A_7C15, _ => 42 } };
    let std = T::from(0.75).unwrap();
    let from: Vec<T> = [0.5, -1.25, 3.0].iter().map(|v| T::from(*v).unwrap()).collect();
    let d = from.len();
    let mut objs: Vec<Option<IsotropicGaussian<T>>> = vec![Some(IsotropicGaussian::<T>::new(std))];
    for (k, op) in c["hist"].as_array().unwrap().iter().enumerate() {
        let i = op["o"].as_u64().unwrap() as usize - 1;
        match op["op"].as_str().unwrap() {
            "seed" => {
                let o = objs[i].take().unwrap();
                objs[i] = Some(o.set_seed(seed_of(op["seed"].as_str().unwrap())));
            }
            "clone" => {
                let cl = objs[0].as_ref().unwrap().clone();
                objs.push(Some(cl));
            }
            _ => {
                let got = objs[i].as_mut().unwrap().sample(&from);
                if got.len() != d {
                    acc.cmp(c, "proposal stream: sample length", got.len() as f64, d as f64, 0.0);
                    continue;
                }
                let sname = op["seed"].as_str().unwrap();
                if sname == "os" {
                    acc.cmp(c, "proposal stream: unseeded draw finite", if got.iter().all(|v| v.is_finite()) { 1.0 } else { 0.0 }, 1.0, 0.0);
                    continue;
                }
                let pos = op["pos"].as_u64().unwrap() as usize;
                // reference: a FRESH object seeded before its first draw, sampled pos + 1 times (how many generator outputs one
                // sample() consumes is the implementation's business -- today d + 1: `sample_iter().zip(current)` pulls one
                // more normal than it uses); the first draw is additionally tied to the generator the documentation names
                let mut fresh = IsotropicGaussian::<T>::new(std).set_seed(seed_of(sname));
                let mut want = fresh.sample(&from);
                for _ in 0..pos {
                    want = fresh.sample(&from);
                }
                for j in 0..d {
                    let what = format!("proposal stream ({ty}): op {k} = draw {pos} after set_seed({sname}) on a used object differs from the same draw of a fresh seeded object, coordinate {j}");
                    acc.cmp(c, &what, got[j].to_f64().unwrap(), want[j].to_f64().unwrap(), 0.0);
                }
                if pos == 0 {
                    let mut rng = SmallRng::seed_from_u64(seed_of(sname));
                    for j in 0..d {
                        let z: T = StandardNormal.sample(&mut rng);
                        let w = (from[j] + std * z).to_f64().unwrap();
                        acc.cmp(c, &format!("proposal stream ({ty}): first draw after set_seed = from + std z"), got[j].to_f64().unwrap(), w, 1e-6 * (1.0 + w.abs()));
                    }
                }
            }
        }
    }
}

pub fn replay(args: &[String]) {
    let cases = read_ndjson(&args[0]);
    let mut acc = Acc { evals: 0, bad: vec![] };
    let mut panics = 0;
    for c in &cases {
        let r = catch(|| match c["kind"].as_str().unwrap() {
            "gauss" => gauss(c, &mut acc),
            "iso" => iso(c, &mut acc),
            "rosen2" => rosen2(c, &mut acc),
            "rosenN" => rosen_n(c, &mut acc),
            "stream" => { stream::<f64>(c, &mut acc, "f64"); stream::<f32>(c, &mut acc, "f32") }
            k => tool_error(&format!("kind {k}")),
        });
        if let Err(e) = r {
            panics += 1;
            if acc.bad.len() < 40 {
                acc.bad.push(json!({"case": c, "what": "panic", "observed": e}));
            }
        }
    }
    println!("{}", json!({"summary": true, "cases": cases.len(), "evaluations": acc.evals, "panics": panics, "bad": acc.bad}));
}
