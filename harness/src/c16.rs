//! C16 — Categorical.  Cases (weight vectors, uniform-variate classes, allowed index sets) come
//! from TLC (spec/Categorical.tla); the variate is injected through the verif-only
//! `Categorical::with_rng` and a crafted generator.
use crate::util::*;
use mini_mcmc::distributions::{Categorical, Discrete};
use num_traits::Float;
use serde_json::{json, Value};

fn word_for(r: f64) -> u64 {
    // next_u64 == v  =>  f64 variate (v >> 11) 2^-53, f32 variate (v >> 40) 2^-24
    if r <= 0.0 { 0 } else if r >= 1.0 { u64::MAX } else { (r * 18446744073709551616.0) as u64 }
}

fn sets(v: &Value) -> Vec<usize> {
    v.as_array().unwrap().iter().map(|x| x.as_u64().unwrap() as usize).collect()
}

struct Acc {
    evals: u64,
    strict: u64,
    exact: u64,
    bad: Vec<Value>,
}

fn one<T>(c: &Value, scale: f64, acc: &mut Acc)
where
    T: Float + std::ops::AddAssign + std::fmt::Debug,
    rand_distr::StandardUniform: rand::distr::Distribution<T>,
{
    let w: Vec<i64> = c["w"].as_array().unwrap().iter().map(|x| x.as_i64().unwrap()).collect();
    let total = c["total"].as_i64().unwrap() as f64;
    let tname = std::any::type_name::<T>();
    let is32 = std::mem::size_of::<T>() == 4;
    // scale < 0: "nearly normalised" input -- the weights sum to one up to a relative error far above rounding
    // (|scale| = 1: slightly above one, |scale| = 2: slightly below) and have to be normalised like any other
    // scale = -3: every weight and their total are SUBNORMAL numbers (exact multiples of a power of two, so that
    // nothing is lost building them): still ordinary non-negative weights
    // scale = -4: every weight is a finite number but their SUM overflows the element type (un-normalised softmax
    // weights exp(logit) are like that for logits beyond 88 in f32)
    let scale = if scale == -3.0 {
        if is32 { 2f64.powi(-140) } else { 2f64.powi(-1060) }
    } else if scale == -4.0 {
        if is32 { 2f64.powi(126) } else { 2f64.powi(1022) }
    } else if scale < 0.0 {
        let delta = if is32 { 2e-4 } else { 3e-9 };
        (if scale == -1.0 { 1.0 + delta } else { 1.0 - delta }) / total
    } else {
        scale
    };
    let weights: Vec<T> = w.iter().map(|x| T::from(*x as f64 * scale).unwrap()).collect();
    let margin = if is32 { 2f64.powi(-14) } else { 2f64.powi(-20) };
    let push = |acc: &mut Acc, what: &str, r: f64, got: Value, allowed: &Vec<usize>| {
        if acc.bad.len() < 30 {
            acc.bad.push(json!({"w": w, "scale": scale, "type": tname, "class": what, "r": r, "returned_index0": got, "allowed_index1": allowed}));
        }
    };
    // stored probabilities sum to one, logp
    let cat0 = Categorical::<T>::new(weights.clone());
    let sum: f64 = cat0.probs.iter().map(|p| p.to_f64().unwrap()).sum();
    let eps = if is32 { 6e-8 } else { 1.2e-16 };
    acc.evals += 1;
    if (sum - 1.0).abs() > eps * (w.len() as f64 + 2.0) * 2.0 {
        push(acc, "probs-sum", sum, json!(null), &vec![]);
    }
    for i in 0..w.len() + 2 {
        let lp = cat0.logp(i).to_f64().unwrap();
        let e = if i < w.len() { (w[i] as f64 / total).ln() } else { f64::NEG_INFINITY };
        let ok = if e.is_infinite() { lp == e } else { (lp - e).abs() <= 1e-5 * e.abs().max(1.0) };
        if !ok {
            push(acc, "logp", e, json!({"index0": i, "logp": lp}), &vec![]);
        }
    }
    let mut draw = |acc: &mut Acc, what: &str, r: f64, allowed: Vec<usize>, strict: bool| {
        let mut cat = Categorical::<T>::with_rng(weights.clone(), crafted_rng(word_for(r)));
        acc.evals += 1;
        match catch(|| cat.sample()) {
            Err(e) => push(acc, what, r, json!({"panic": e}), &allowed),
            Ok(k) => {
                let zero_prob = k >= w.len() || w[k] == 0;
                if zero_prob {
                    push(acc, &format!("zero-prob {what}"), r, json!(k), &allowed);
                } else if strict {
                    acc.strict += 1;
                    if !allowed.contains(&(k + 1)) {
                        push(acc, what, r, json!(k), &allowed);
                    }
                }
            }
        }
    };
    draw(acc, "r=0", 0.0, sets(&c["zero"]), true);
    draw(acc, "r=1-ulp", 1.0, sets(&c["max"]), !is32 || w.len() <= 8);
    let mids = c["mids"].as_array().unwrap();
    let kk = mids.len() as f64;
    for (k, a) in mids.iter().enumerate() {
        let a = sets(a);
        let strict = a.len() == 1;
        draw(acc, "mid", (2.0 * k as f64 + 1.0) / (2.0 * kk), a, strict);
    }
    let mut cum = 0.0;
    // the implementation's own running sum of the stored probabilities, in T: the variate can hit it exactly
    let mut cum_t = T::zero();
    let quantum = if is32 { 2f64.powi(-24) } else { 2f64.powi(-53) };
    for i in 0..w.len() {
        cum += w[i] as f64;
        cum_t += cat0.probs[i];
        let b = sets(&c["below"][i]);
        if !b.is_empty() {
            draw(acc, "below-threshold", cum / total - margin, b, true);
            draw(acc, "above-threshold", cum / total + margin, sets(&c["above"][i]), true);
            // exactly at the threshold (when the float cumulative sum is a representable variate), else the two
            // variates enclosing it: either neighbour of positive probability, never a zero-probability category
            let ct = cum_t.to_f64().unwrap();
            if ct > 0.0 && ct < 1.0 && (ct - cum / total).abs() < margin / 4.0 {
                let exact = (ct / quantum).fract() == 0.0;
                draw(acc, if exact { "at-threshold" } else { "just-below-threshold" }, ct, sets(&c["at"][i]), true);
                if !exact {
                    draw(acc, "just-above-threshold", ct + quantum, sets(&c["at"][i]), true);
                }
                if exact {
                    acc.exact += 1;
                }
            }
        }
    }
}

pub fn replay(args: &[String]) {
    let cases = read_ndjson(&args[0]);
    let mut acc = Acc { evals: 0, strict: 0, exact: 0, bad: vec![] };
    for c in &cases {
        for scale in [1.0, 0.37, 1000.0, -1.0, -2.0, -3.0, -4.0] {
            one::<f64>(c, scale, &mut acc);
            one::<f32>(c, scale, &mut acc);
        }
    }
    println!("{}", json!({"summary": true, "cases": cases.len(), "evaluations": acc.evals, "strict": acc.strict, "exact_thresholds": acc.exact, "bad": acc.bad}));
}
