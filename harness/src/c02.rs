//! C02 — one HMC step.  replay: behaviours of spec/HMC.tla (dyadic lattice, quadratic target)
//! are executed by the real HMC::step with momenta and uniforms injected through the hooks; on
//! the f64 backend every number must match the specification's exact rationals bit for bit.
//! record: random runs on arbitrary targets, one event per spec action with the relations
//! re-evaluated from the harness's own closed-form gradient, for spec/Trace_HMC.tla.
use crate::util::*;
use burn::backend::{Autodiff, NdArray};
use burn::prelude::*;
use burn::tensor::backend::AutodiffBackend;
use mini_mcmc::distributions::BatchedGradientTarget;
use mini_mcmc::hmc::HMC;
use num_traits::Float;
use serde_json::{json, Value};
use std::cell::RefCell;
use std::rc::Rc;

type B64 = Autodiff<NdArray<f64>>;
type B32 = Autodiff<NdArray<f32>>;

#[derive(Clone)]
pub struct Quad {
    pub a: f64,
}
impl<T: Float, B: AutodiffBackend> BatchedGradientTarget<T, B> for Quad {
    fn unnorm_logp_batch(&self, positions: Tensor<B, 2>) -> Tensor<B, 1> {
        (positions.clone() * positions).sum_dim(1).squeeze(1).mul_scalar(-self.a / 2.0)
    }
}

type Events = Rc<RefCell<Vec<(String, Vec<i64>, Vec<f64>)>>>;
fn capture() -> Events {
    let ev: Events = Default::default();
    let e2 = ev.clone();
    mini_mcmc::verif::set_sink(Some(Box::new(move |n, i, f| e2.borrow_mut().push((n.to_string(), i.to_vec(), f.to_vec())))));
    ev
}
fn u_value(cls: i64, f32mode: bool) -> f64 {
    match cls {
        0 => 0.0,
        -1 => if f32mode { 1.0 - 2f64.powi(-24) } else { 1.0 - 2f64.powi(-53) },
        j => 2f64.powi(-(j as i32)),
    }
}
fn nums(v: &Value) -> Vec<i64> {
    v.as_array().unwrap().iter().map(|x| x.as_i64().unwrap()).collect()
}

struct Acc {
    evals: u64,
    moved: u64,
    bad: Vec<Value>,
}

/// Runs a group of behaviours (same A, E, L, dim, number of steps) as ONE batch, rows in the
/// given order.  Every row must match its own behaviour whatever the other rows are.
fn run_group<B: AutodiffBackend, T>(group: &[&Value], order: &[usize], f32mode: bool, acc: &mut Acc, label: &str)
where
    T: Float + burn::tensor::ElementConversion + burn::tensor::Element + rand_distr::uniform::SampleUniform + num_traits::FromPrimitive,
    rand_distr::StandardNormal: rand::distr::Distribution<T>,
    rand_distr::StandardUniform: rand_distr::Distribution<T>,
{
    let g0 = group[0];
    let (a, e, l, s, dim) = (g0["A"].as_i64().unwrap(), g0["E"].as_i64().unwrap(), g0["L"].as_u64().unwrap() as usize, g0["S"].as_i64().unwrap(), g0["dim"].as_u64().unwrap() as usize);
    let scale = 2f64.powi(s as i32);
    let hscale = 2f64.powi(2 * s as i32 + 1);
    let kscale = |v: i64| v as f64; // inputs are numerators over 2^K, lifted below
    let _ = kscale;
    let nsteps = g0["steps"].as_array().unwrap().len();
    let rows: Vec<&Value> = order.iter().map(|&i| group[i]).collect();
    let n = rows.len();
    let x_of = |b: &Value, st: usize| -> Vec<f64> { nums(&b["steps"][st]["xstart"]).iter().map(|v| *v as f64 / scale).collect() };
    let init: Vec<Vec<T>> = rows.iter().map(|b| x_of(b, 0).iter().map(|v| T::from(*v).unwrap()).collect()).collect();
    let eps = 2f64.powi(-(e as i32));
    // `step_size` and `n_leapfrog` are public fields -- the only way to re-tune a sampler this crate offers -- and HMC.tla's E and L
    // are their values WHEN THE STEP IS TAKEN: every second group is replayed on a sampler built with other values and re-tuned
    // by assignment before its first step (anything derived from them at construction time would be stale)
    static RETUNE: std::sync::atomic::AtomicUsize = std::sync::atomic::AtomicUsize::new(0);
    let retune = RETUNE.fetch_add(1, std::sync::atomic::Ordering::Relaxed) % 2 == 1;
    let mut hmc = if retune {
        // ... and `positions` is public too: the sampler first makes one throw-away transition somewhere else (whatever it carries
        // from step to step is stale afterwards) and is then put on the behaviour's start by assignment
        let shifted: Vec<Vec<T>> = init.iter().map(|r| r.iter().map(|v| *v + T::one()).collect()).collect();
        let mut h = HMC::<T, B, Quad>::new(Quad { a: a as f64 }, shifted, T::from(eps * 4.0).unwrap(), l + 2);
        mini_mcmc::verif::push_hmc_momenta(vec![0.25; n * dim]);
        mini_mcmc::verif::push_hmc_uniforms(vec![0.5; n]);
        let _ = catch(|| h.step());
        h.step_size = T::from(eps).unwrap();
        h.n_leapfrog = l;
        let flat: Vec<T> = init.iter().flatten().cloned().collect();
        let dev = h.positions.device();
        h.positions = Tensor::<B, 2>::from_data(TensorData::new(flat, [n, dim]), &dev);
        h
    } else {
        HMC::<T, B, Quad>::new(Quad { a: a as f64 }, init, T::from(eps).unwrap(), l)
    };
    let label = &(if retune { format!("{label} re-tuned by assignment") } else { label.to_string() });
    let up = 2f64.powi((s - g0_k(g0)) as i32);
    let _ = up;
    for st in 0..nsteps {
        // momenta: p0 is given over 2^K; the behaviour also carries pprop etc. over 2^S
        let kbits = g0_k(g0);
        let mom: Vec<f64> = rows.iter().flat_map(|b| nums(&b["steps"][st]["p0"]).into_iter().map(move |v| v as f64 / 2f64.powi(kbits as i32))).collect();
        let us: Vec<f64> = rows.iter().map(|b| u_value(b["steps"][st]["u"].as_i64().unwrap(), f32mode)).collect();
        mini_mcmc::verif::push_hmc_momenta(mom);
        mini_mcmc::verif::push_hmc_uniforms(us);
        let ev = capture();
        let r = catch(|| hmc.step());
        mini_mcmc::verif::set_sink(None);
        acc.evals += n as u64;
        if let Err(p) = r {
            acc.bad.push(json!({"behaviour": rows[0], "backend": label, "why": format!("panic in step {st}: {p}")}));
            return;
        }
        let evs = ev.borrow();
        let get = |name: &str| evs.iter().find(|(n, _, _)| n == name).map(|(_, _, f)| f.clone()).unwrap_or_default();
        let prop = get("hmc_prop"); // positions (n*dim), momenta (n*dim), logp (n)
        let hh = get("hmc_h"); // h0 (n), h1 (n)
        let end = get("hmc_end");
        let n_lf = evs.iter().filter(|(nm, _, _)| nm == "hmc_lf").count();
        if n_lf != l {
            acc.bad.push(json!({"behaviour": rows[0], "backend": label, "why": format!("{n_lf} leapfrog steps instead of {l}")}));
            return;
        }
        for (ri, b) in rows.iter().enumerate() {
            let sb = &b["steps"][st];
            let want_xp: Vec<f64> = nums(&sb["xprop"]).iter().map(|v| *v as f64 / scale).collect();
            let want_pp: Vec<f64> = nums(&sb["pprop"]).iter().map(|v| *v as f64 / scale).collect();
            let want_new: Vec<f64> = nums(&sb["xnew"]).iter().map(|v| *v as f64 / scale).collect();
            let old = x_of(b, st);
            let mut why = vec![];
            let got_xp = &prop[ri * dim..(ri + 1) * dim];
            let got_pp = &prop[n * dim + ri * dim..n * dim + (ri + 1) * dim];
            let got_new = &end[ri * dim..(ri + 1) * dim];
            let same = |a: &[f64], b: &[f64]| a.iter().zip(b).all(|(x, y)| x.to_bits() == y.to_bits() || (*x == 0.0 && *y == 0.0));
            if !same(got_xp, &want_xp) {
                why.push(format!("proposal position {:?}, exactly {:?} after {l} leapfrog steps", got_xp, want_xp));
            }
            if !same(got_pp, &want_pp) {
                why.push(format!("proposal momentum {:?}, exactly {:?}", got_pp, want_pp));
            }
            if !f32mode {
                let (h0, h1) = (sb["h0"].as_i64().unwrap() as f64 / hscale, sb["h1"].as_i64().unwrap() as f64 / hscale);
                if hh[ri].to_bits() != h0.to_bits() && hh[ri] != h0 {
                    why.push(format!("H(x,p) = {}, exactly {h0}", hh[ri]));
                }
                if hh[n + ri] != h1 {
                    why.push(format!("H(x',p') = {}, exactly {h1}", hh[n + ri]));
                }
                if !same(got_new, &want_new) {
                    why.push(format!("row after the step {:?}, expected {:?} (accept = {})", got_new, want_new, sb["acc"]));
                }
            } else if !(same(got_new, &old) || same(got_new, got_xp)) {
                why.push(format!("row after the step {:?} is neither the old row {:?} nor the proposal {:?}", got_new, old, got_xp));
            }
            if sb["acc"].as_bool().unwrap() && want_new != old {
                acc.moved += 1;
            }
            if !why.is_empty() && acc.bad.len() < 25 {
                acc.bad.push(json!({"behaviour": b, "backend": label, "step": st, "batch_rows": n, "row": ri, "why": why}));
            }
        }
    }
    // reversibility of the real integrator: from (x', -p') back to (x, -p), exactly
    if !f32mode && l > 0 {
        let b = rows[0];
        let sb = &b["steps"][0];
        let xp: Vec<f64> = nums(&sb["xprop"]).iter().map(|v| *v as f64 / scale).collect();
        let pp: Vec<f64> = nums(&sb["pprop"]).iter().map(|v| -(*v as f64) / scale).collect();
        let x0 = x_of(b, 0);
        let kb = g0_k(g0);
        let p0: Vec<f64> = nums(&sb["p0"]).iter().map(|v| -(*v as f64) / 2f64.powi(kb as i32)).collect();
        let dev = <B as Backend>::Device::default();
        let tx = Tensor::<B, 2>::from_data(TensorData::new(xp, [1, dim]), &dev);
        let tp = Tensor::<B, 2>::from_data(TensorData::new(pp, [1, dim]), &dev);
        let mut h1 = HMC::<T, B, Quad>::new(Quad { a: a as f64 }, vec![vec![T::zero(); dim]], T::from(eps).unwrap(), l);
        match catch(|| h1.verif_leapfrog(tx, tp)) {
            Err(p) => acc.bad.push(json!({"behaviour": b, "backend": label, "why": format!("verif_leapfrog panicked: {p}")})),
            Ok((bx, bp, _)) => {
                let bx = bx.into_data().convert::<f64>().to_vec::<f64>().unwrap();
                let bp = bp.into_data().convert::<f64>().to_vec::<f64>().unwrap();
                acc.evals += 1;
                if bx != x0 || bp != p0 {
                    acc.bad.push(json!({"behaviour": b, "backend": label, "why": format!("not reversible: from (x', -p') the integrator returns to ({bx:?}, {bp:?}) instead of ({x0:?}, {p0:?})")}));
                }
            }
        }
    }
}
fn g0_k(g: &Value) -> i64 {
    g["K"].as_i64().unwrap()
}

pub fn replay(args: &[String]) {
    let cases = read_ndjson(&args[0]);
    let mut acc = Acc { evals: 0, moved: 0, bad: vec![] };
    // group by configuration
    let mut groups: std::collections::BTreeMap<String, Vec<&Value>> = Default::default();
    for c in &cases {
        let key = format!("{}-{}-{}-{}-{}-{}", c["A"], c["E"], c["L"], c["S"], c["dim"], c["steps"].as_array().unwrap().len());
        groups.entry(key).or_default().push(c);
    }
    for (_k, g) in groups {
        for chunk in g.chunks(32) {
            let n = chunk.len();
            let fwd: Vec<usize> = (0..n).collect();
            let rev: Vec<usize> = (0..n).rev().collect();
            run_group::<B64, f64>(chunk, &fwd, false, &mut acc, "f64/NdArray<f64>");
            run_group::<B64, f64>(chunk, &rev, false, &mut acc, "f64/NdArray<f64> (rows reversed)");
            for i in (0..n).step_by(7) {
                run_group::<B64, f64>(chunk, &[i], false, &mut acc, "f64/NdArray<f64> (row alone)");
            }
            let s = chunk[0]["S"].as_i64().unwrap();
            if s <= 20 {
                run_group::<B32, f32>(chunk, &fwd, true, &mut acc, "f32/NdArray<f32>");
            }
        }
    }
    println!("{}", json!({"summary": true, "cases": cases.len(), "evaluations": acc.evals, "moved": acc.moved, "bad": acc.bad}));
}

// =====================================================================================
// record: arbitrary targets, one event per (step, row) for spec/Trace_HMC.tla
// =====================================================================================
use mini_mcmc::distributions::{DiffableGaussian2D, Rosenbrock2D, RosenbrockND};

/// The harness's own closed forms of the targets (the oracle constants of the specification).
#[derive(Clone, Debug)]
pub enum Own {
    Gauss2 { mean: [f64; 2], cov: [[f64; 2]; 2] },
    Rosen2 { a: f64, b: f64 },
    RosenN,
    Student { nu: f64 },
    StudentC { nu: f64, c: f64 }, // the same with an additive constant (an unnormalised log-likelihood of a large data set)
    HalfLine, // log p = sum ln x - x  (NaN for x < 0, -inf at 0)
    BoxU,     // uniform on the open box (0,1)^d: 0 inside, -inf outside; gradient 0
}
impl Own {
    pub fn logp(&self, x: &[f64]) -> f64 {
        match self {
            Own::Gauss2 { mean, cov } => {
                let det = cov[0][0] * cov[1][1] - cov[0][1] * cov[1][0];
                let (dx, dy) = (x[0] - mean[0], x[1] - mean[1]);
                let q = (cov[1][1] * dx * dx - (cov[0][1] + cov[1][0]) * dx * dy + cov[0][0] * dy * dy) / det;
                -0.5 * q - (2.0 * std::f64::consts::PI).ln() - 0.5 * det.ln()
            }
            Own::Rosen2 { a, b } => -((a - x[0]).powi(2) + b * (x[1] - x[0] * x[0]).powi(2)),
            Own::RosenN => -(0..x.len() - 1).map(|i| 100.0 * (x[i + 1] - x[i] * x[i]).powi(2) + (1.0 - x[i]).powi(2)).sum::<f64>(),
            Own::Student { nu } => x.iter().map(|v| -(nu + 1.0) / 2.0 * (1.0 + v * v / nu).ln()).sum(),
            Own::StudentC { nu, c } => c + x.iter().map(|v| -(nu + 1.0) / 2.0 * (1.0 + v * v / nu).ln()).sum::<f64>(),
            Own::HalfLine => x.iter().map(|v| v.ln() - v).sum(),
            Own::BoxU => if x.iter().all(|v| *v > 0.0 && *v < 1.0) { 0.0 } else { f64::NEG_INFINITY },
        }
    }
    pub fn grad(&self, x: &[f64]) -> Vec<f64> {
        match self {
            Own::Gauss2 { mean, cov } => {
                let det = cov[0][0] * cov[1][1] - cov[0][1] * cov[1][0];
                let (dx, dy) = (x[0] - mean[0], x[1] - mean[1]);
                vec![-(cov[1][1] * dx - 0.5 * (cov[0][1] + cov[1][0]) * dy) / det, -(cov[0][0] * dy - 0.5 * (cov[0][1] + cov[1][0]) * dx) / det]
            }
            Own::Rosen2 { a, b } => vec![2.0 * (a - x[0]) + 4.0 * b * x[0] * (x[1] - x[0] * x[0]), -2.0 * b * (x[1] - x[0] * x[0])],
            Own::RosenN => {
                let n = x.len();
                (0..n).map(|j| {
                    let own = if j < n - 1 { 400.0 * x[j] * (x[j + 1] - x[j] * x[j]) + 2.0 * (1.0 - x[j]) } else { 0.0 };
                    let prev = if j > 0 { -200.0 * (x[j] - x[j - 1] * x[j - 1]) } else { 0.0 };
                    own + prev
                }).collect()
            }
            Own::Student { nu } | Own::StudentC { nu, .. } => x.iter().map(|v| -(nu + 1.0) * v / (nu + v * v)).collect(),
            Own::HalfLine => x.iter().map(|v| 1.0 / v - 1.0).collect(),
            Own::BoxU => vec![0.0; x.len()],
        }
    }
}
#[derive(Clone)]
pub struct StudentT {
    pub nu: f64,
}
/// Student-t plus a large additive constant: H is of the order of the constant, the energy *difference* is O(1).
#[derive(Clone)]
pub struct StudentC {
    pub nu: f64,
    pub c: f64,
}
impl<T: Float, B: AutodiffBackend> BatchedGradientTarget<T, B> for StudentC {
    fn unnorm_logp_batch(&self, p: Tensor<B, 2>) -> Tensor<B, 1> {
        (p.clone() * p).mul_scalar(1.0 / self.nu).add_scalar(1.0).log().mul_scalar(-(self.nu + 1.0) / 2.0).sum_dim(1).squeeze::<1>(1).add_scalar(self.c)
    }
}
impl<T: Float, B: AutodiffBackend> BatchedGradientTarget<T, B> for StudentT {
    fn unnorm_logp_batch(&self, p: Tensor<B, 2>) -> Tensor<B, 1> {
        (p.clone() * p).mul_scalar(1.0 / self.nu).add_scalar(1.0).log().mul_scalar(-(self.nu + 1.0) / 2.0).sum_dim(1).squeeze(1)
    }
}
/// The uniform density on the open box (0,1)^d written the obvious way: a constant, masked outside.  The result does
/// not depend on the positions in the autodiff graph -- there is no gradient entry for them.
#[derive(Clone)]
pub struct BoxU;
impl<T: Float, B: AutodiffBackend> BatchedGradientTarget<T, B> for BoxU {
    fn unnorm_logp_batch(&self, p: Tensor<B, 2>) -> Tensor<B, 1> {
        let n = p.dims()[0];
        let outside = (p.clone().lower_equal_elem(0.0).int() + p.clone().greater_equal_elem(1.0).int()).sum_dim(1).squeeze::<1>(1).greater_elem(0);
        Tensor::<B, 1>::zeros([n], &p.device()).mask_fill(outside, f32::NEG_INFINITY)
    }
}
/// The same box, evaluated on the host and handed back as a tensor built from data: an untracked leaf of the autodiff graph.
#[derive(Clone)]
pub struct BoxLeaf;
impl<T: Float + burn::tensor::Element, B: AutodiffBackend> BatchedGradientTarget<T, B> for BoxLeaf {
    fn unnorm_logp_batch(&self, p: Tensor<B, 2>) -> Tensor<B, 1> {
        let [n, d] = p.dims();
        let dev = p.device();
        let v: Vec<f64> = p.into_data().convert::<f64>().to_vec::<f64>().unwrap();
        let lp: Vec<f64> = (0..n).map(|r| if v[r * d..(r + 1) * d].iter().all(|x| *x > 0.0 && *x < 1.0) { 0.0 } else { f64::NEG_INFINITY }).collect();
        Tensor::<B, 1>::from_data(TensorData::new(lp, [n]), &dev)
    }
}
#[derive(Clone)]
pub struct HalfLine;
impl<T: Float, B: AutodiffBackend> BatchedGradientTarget<T, B> for HalfLine {
    fn unnorm_logp_batch(&self, p: Tensor<B, 2>) -> Tensor<B, 1> {
        (p.clone().log() - p).sum_dim(1).squeeze(1)
    }
}

pub fn fx16(v: f64) -> Value {
    // ExtReal in units of 2^-16, saturated at +-2^30
    if v.is_nan() {
        json!({"k": "nan", "v": 0})
    } else if v == f64::INFINITY {
        json!({"k": "pinf", "v": 0})
    } else if v == f64::NEG_INFINITY {
        json!({"k": "ninf", "v": 0})
    } else {
        json!({"k": "fin", "v": (v * 65536.0).round().clamp(-1073741824.0, 1073741824.0) as i64})
    }
}
fn close(a: f64, b: f64, tol: f64) -> bool {
    if a.is_nan() || b.is_nan() {
        return a.is_nan() && b.is_nan();
    }
    if a.is_infinite() || b.is_infinite() {
        return a == b || (a.abs() > 1e30 && b.abs() > 1e30 && a.signum() == b.signum());
    }
    (a - b).abs() <= tol * (1.0 + a.abs().max(b.abs()))
}

/// residual of one leapfrog step in units of `tol` (0 = exact, saturated at 1000)
fn lf_residual(own: &Own, eps: f64, x: &[f64], p: &[f64], x2: &[f64], p2: &[f64], tol: f64) -> i64 {
    let g = own.grad(x);
    let ph: Vec<f64> = p.iter().zip(&g).map(|(p, g)| p + 0.5 * eps * g).collect();
    let xe: Vec<f64> = x.iter().zip(&ph).map(|(x, p)| x + eps * p).collect();
    // the gradient at the *observed* new position (so that errors do not compound)
    let g2 = own.grad(x2);
    let pe: Vec<f64> = ph.iter().zip(&g2).map(|(p, g)| p + 0.5 * eps * g).collect();
    let mut worst: f64 = 0.0;
    for i in 0..x.len() {
        for (obs, exp) in [(x2[i], xe[i]), (p2[i], pe[i])] {
            if close(obs, exp, tol) {
                continue;
            }
            if !obs.is_finite() || !exp.is_finite() {
                // once the trajectory has overflowed nothing can be said about the exact kind
                if !x2.iter().chain(p2.iter()).chain(xe.iter()).chain(pe.iter()).all(|v| v.is_finite() && v.abs() < 1e30) {
                    continue;
                }
                return 1000;
            }
            let scale = 1.0 + obs.abs().max(exp.abs()) + eps * (p[i].abs() + 0.5 * eps * g[i].abs()) + 0.5 * eps * g2[i].abs();
            worst = worst.max((obs - exp).abs() / (tol * scale));
        }
    }
    (worst.ceil() as i64).min(1000)
}

#[allow(clippy::too_many_arguments)]
fn record_run<B: AutodiffBackend, T, G>(out: &mut NdjsonOut, label: &str, own: Own, target: G, init: Vec<Vec<f64>>, eps: f64, l: usize, steps: usize, seed: u64, tol: f64, moved: &mut u64)
where
    T: Float + burn::tensor::ElementConversion + burn::tensor::Element + rand_distr::uniform::SampleUniform + num_traits::FromPrimitive,
    G: BatchedGradientTarget<T, B> + Sync,
    rand_distr::StandardNormal: rand::distr::Distribution<T>,
    rand_distr::StandardUniform: rand_distr::Distribution<T>,
{
    let n = init.len();
    let dim = init[0].len();
    let initt: Vec<Vec<T>> = init.iter().map(|r| r.iter().map(|v| T::from(*v).unwrap()).collect()).collect();
    let mut hmc = HMC::<T, B, G>::new(target, initt, T::from(eps).unwrap(), l).set_seed(seed);
    let eps_t = num_traits::ToPrimitive::to_f64(&T::from(eps).unwrap()).unwrap(); // the step size as the sampler sees it
    out.push(&json!({"e": "new", "label": label, "n": n, "dim": dim, "L": l, "eps": eps}));
    for st in 0..steps {
        let ev = capture();
        let r = catch(|| hmc.step());
        mini_mcmc::verif::set_sink(None);
        if let Err(p) = r {
            out.push(&json!({"e": "panic", "label": label, "step": st, "msg": p}));
            return;
        }
        let evs = ev.borrow();
        let get = |name: &str| evs.iter().find(|(n, _, _)| n == name).map(|(_, _, f)| f.clone()).unwrap_or_default();
        let begin = get("hmc_begin");
        let prop = get("hmc_prop");
        let hh = get("hmc_h");
        let us = get("hmc_u");
        let end = get("hmc_end");
        let lfs: Vec<&Vec<f64>> = evs.iter().filter(|(nm, _, _)| nm == "hmc_lf").map(|(_, _, f)| f).collect();
        for r in 0..n {
            let x0 = &begin[r * dim..(r + 1) * dim];
            let p0 = &begin[n * dim + r * dim..n * dim + (r + 1) * dim];
            // leapfrog chain of this row
            let mut worst = 0i64;
            let (mut cx, mut cp) = (x0.to_vec(), p0.to_vec());
            for f in &lfs {
                let x2 = &f[r * dim..(r + 1) * dim];
                let p2 = &f[n * dim + r * dim..n * dim + (r + 1) * dim];
                worst = worst.max(lf_residual(&own, eps_t, &cx, &cp, x2, p2, tol));
                cx = x2.to_vec();
                cp = p2.to_vec();
            }
            let xp = &prop[r * dim..(r + 1) * dim];
            let pp = &prop[n * dim + r * dim..n * dim + (r + 1) * dim];
            let same_bits = |a: &[f64], b: &[f64]| a.iter().zip(b).all(|(x, y)| x.to_bits() == y.to_bits());
            let prop_is_last = same_bits(xp, &cx) && same_bits(pp, &cp);
            // energies from the harness's own log-density at the logged points
            let ke = |p: &[f64]| 0.5 * p.iter().map(|v| v * v).sum::<f64>();
            let (h0_own, h1_own) = (-own.logp(x0) + ke(p0), -own.logp(xp) + ke(pp));
            let (h0, h1) = (hh[r], hh[n + r]);
            let h_ok = |obs: f64, exp: f64| close(obs, exp, tol * 50.0) || (!exp.is_finite() && !obs.is_finite()) || (exp.abs() > 1e30 && !obs.is_finite()) || (obs.abs() > 1e30 && !exp.is_finite());
            let xn = &end[r * dim..(r + 1) * dim];
            let is_old = same_bits(xn, x0);
            let is_prop = same_bits(xn, xp);
            if !is_old {
                *moved += 1;
            }
            let u = us[r];
            let lp_new = own.logp(xn);
            out.push(&json!({"e": "row", "label": label, "step": st, "r": r, "L": l, "nlf": lfs.len(), "lfres": worst,
                "prop_is_last": prop_is_last, "h0_ok": h_ok(h0, h0_own), "h1_ok": h_ok(h1, h1_own),
                "delta": fx16(h0 - h1), "lnu": fx16(u.ln()), "uzero": u == 0.0,
                "is_old": is_old, "is_prop": is_prop,
                "lp_new": fx16(lp_new), "coords_finite": xn.iter().all(|v| v.is_finite()),
                "lp_old": fx16(own.logp(x0))}));
        }
    }
}

pub fn record(args: &[String]) {
    let seed = arg_u64(args, "--seed", 1);
    let thorough = args.iter().any(|a| a == "--thorough");
    let only_bad_targets = args.iter().any(|a| a == "--c14");
    let mut out = NdjsonOut::create(arg(args, "--out").unwrap());
    let mut s = seed;
    let mut moved = 0u64;
    let steps = if thorough { 40 } else { 12 };
    let mut rnd = |lo: f64, hi: f64| lo + (splitmix(&mut s) % 10_000) as f64 / 10_000.0 * (hi - lo);
    let n_cfg = if thorough { 10 } else { 3 };
    for c in 0..n_cfg {
        let n = [1usize, 3, 8, 32][c % 4];
        let l = [0usize, 1, 5, 17, 64][c % 5];
        let eps = [0.05, 0.3, 1.7, 25.0][(c / 2) % 4]; // stable .. unstable
        if !only_bad_targets {
            let cov = [[rnd(0.5, 3.0), 0.3], [0.3, rnd(0.5, 2.0)]];
            let mean = [rnd(-1.0, 1.0), rnd(-1.0, 1.0)];
            let init: Vec<Vec<f64>> = (0..n).map(|_| vec![rnd(-2.0, 2.0), rnd(-2.0, 2.0)]).collect();
            let c32 = [[cov[0][0] as f32, cov[0][1] as f32], [cov[1][0] as f32, cov[1][1] as f32]];
            let own32 = Own::Gauss2 { mean: [mean[0] as f32 as f64, mean[1] as f32 as f64], cov: [[c32[0][0] as f64, c32[0][1] as f64], [c32[1][0] as f64, c32[1][1] as f64]] };
            record_run::<B32, f32, _>(&mut out, "gauss2/f32", own32.clone(), DiffableGaussian2D::<f32>::new([mean[0] as f32, mean[1] as f32], c32), init.clone(), eps, l, steps, seed + c as u64, 2e-4, &mut moved);
            record_run::<B64, f64, _>(&mut out, "gauss2/f64", Own::Gauss2 { mean, cov }, DiffableGaussian2D::<f64>::new(mean, cov), init.clone(), eps, l, steps, seed + c as u64, 1e-12, &mut moved);
            let ri: Vec<Vec<f64>> = (0..n).map(|_| vec![rnd(-1.0, 1.0), rnd(-1.0, 1.0)]).collect();
            record_run::<B64, f64, _>(&mut out, "rosen2/f64", Own::Rosen2 { a: 1.0, b: 5.0 }, Rosenbrock2D::<f64> { a: 1.0, b: 5.0 }, ri.clone(), eps * 0.1, l.min(17), steps, seed + 100 + c as u64, 1e-12, &mut moved);
            record_run::<B32, f32, _>(&mut out, "rosen2/f32", Own::Rosen2 { a: 1.0, b: 5.0 }, Rosenbrock2D::<f32> { a: 1.0, b: 5.0 }, ri, eps * 0.1, l.min(17), steps, seed + 100 + c as u64, 3e-4, &mut moved);
            let d = [3usize, 7, 16][c % 3];
            let ni: Vec<Vec<f64>> = (0..n).map(|_| (0..d).map(|_| rnd(-0.5, 1.0)).collect()).collect();
            record_run::<B64, f64, _>(&mut out, "rosenN/f64", Own::RosenN, RosenbrockND {}, ni, eps * 0.01, l.min(17), steps, seed + 200 + c as u64, 1e-12, &mut moved);
            let si: Vec<Vec<f64>> = (0..n).map(|_| (0..d).map(|_| rnd(-3.0, 3.0)).collect()).collect();
            record_run::<B64, f64, _>(&mut out, "student/f64", Own::Student { nu: 3.0 }, StudentT { nu: 3.0 }, si.clone(), eps, l, steps, seed + 300 + c as u64, 1e-12, &mut moved);
            record_run::<B32, f32, _>(&mut out, "student/f32", Own::Student { nu: 3.0 }, StudentT { nu: 3.0 }, si.clone(), eps, l, steps, seed + 300 + c as u64, 3e-4, &mut moved);
            // scalar type and backend precision differ
            // f64 backend, log-density shifted by -2.5e8 (and +3e9): |H| is huge, H - H' is not (the accept test needs the
            // difference of the two energies in f64)
            record_run::<B64, f64, _>(&mut out, "student-2.5e8/f64", Own::StudentC { nu: 3.0, c: -2.5e8 }, StudentC { nu: 3.0, c: -2.5e8 }, si.clone(), eps, l, steps, seed + 303 + c as u64, 1e-12, &mut moved);
            record_run::<B64, f64, _>(&mut out, "student+3e9/f64", Own::StudentC { nu: 3.0, c: 3e9 }, StudentC { nu: 3.0, c: 3e9 }, si.clone(), eps, l, steps, seed + 304 + c as u64, 1e-12, &mut moved);
            record_run::<B64, f32, _>(&mut out, "student/f32-on-f64", Own::Student { nu: 3.0 }, StudentT { nu: 3.0 }, si.clone(), eps, l, steps, seed + 301 + c as u64, 3e-4, &mut moved);
            record_run::<B32, f64, _>(&mut out, "student/f64-on-f32", Own::Student { nu: 3.0 }, StudentT { nu: 3.0 }, si, eps, l, steps, seed + 302 + c as u64, 3e-4, &mut moved);
        }
        // bounded support / NaN region / overflowing step sizes (C14)
        let hi: Vec<Vec<f64>> = (0..n).map(|_| vec![rnd(0.2, 3.0), rnd(0.2, 3.0)]).collect();
        for e2 in [0.3, 2.5, 1e3, 1e30, 1e300] {
            record_run::<B64, f64, _>(&mut out, "halfline/f64", Own::HalfLine, HalfLine, hi.clone(), e2, l.clamp(1, 9), steps, seed + 400 + c as u64, 1e-12, &mut moved);
            if e2 < 1e38 {
                record_run::<B32, f32, _>(&mut out, "halfline/f32", Own::HalfLine, HalfLine, hi.clone(), e2, l.clamp(1, 9), steps, seed + 400 + c as u64, 3e-4, &mut moved);
            }
        }
        // a box with a piecewise constant log-density (no gradient entry in the autodiff graph)
        let bi: Vec<Vec<f64>> = (0..n).map(|_| vec![rnd(0.1, 0.9), rnd(0.1, 0.9)]).collect();
        for e2 in [0.05, 0.4] {
            record_run::<B64, f64, _>(&mut out, "box/f64", Own::BoxU, BoxU, bi.clone(), e2, l.clamp(0, 9), steps, seed + 500 + c as u64, 1e-7, &mut moved);
            record_run::<B32, f32, _>(&mut out, "box/f32", Own::BoxU, BoxU, bi.clone(), e2, l.clamp(0, 9), steps, seed + 500 + c as u64, 3e-4, &mut moved);
            record_run::<B64, f64, _>(&mut out, "boxleaf/f64", Own::BoxU, BoxLeaf, bi.clone(), e2, l.clamp(0, 9), steps, seed + 510 + c as u64, 1e-7, &mut moved);
            record_run::<B32, f32, _>(&mut out, "boxleaf/f32", Own::BoxU, BoxLeaf, bi.clone(), e2, l.clamp(0, 9), steps, seed + 510 + c as u64, 3e-4, &mut moved);
        }
    }
    // the corner of the quantifier in every tier: 32 chains x 16 dimensions, 64 leapfrog steps
    if !only_bad_targets {
        let si: Vec<Vec<f64>> = (0..32).map(|_| (0..16).map(|_| rnd(-3.0, 3.0)).collect()).collect();
        record_run::<B64, f64, _>(&mut out, "student/f64 32x16 L=64", Own::Student { nu: 3.0 }, StudentT { nu: 3.0 }, si.clone(), 0.05, 64, 6, seed + 900, 1e-7, &mut moved);
        record_run::<B32, f32, _>(&mut out, "student/f32 32x16 L=64", Own::Student { nu: 3.0 }, StudentT { nu: 3.0 }, si.clone(), 0.02, 64, 6, seed + 901, 3e-4, &mut moved);
        let ni: Vec<Vec<f64>> = (0..32).map(|_| (0..16).map(|_| rnd(-0.5, 1.0)).collect()).collect();
        record_run::<B64, f64, _>(&mut out, "rosenN/f64 32x16 L=17", Own::RosenN, RosenbrockND {}, ni, 0.002, 17, 6, seed + 902, 1e-7, &mut moved);
    }
    let n = out.finish();
    println!("{}", json!({"summary": true, "events": n, "moved": moved}));
}
