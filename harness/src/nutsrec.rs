//! Shared by C03 / C04 / C14: runs a real NUTSChain with the hook sink installed and projects
//! the raw hook events onto the actions of spec/NutsTree.tla and spec/DualAvg.tla.
//! Offsets on the leapfrog trajectory are recovered BY VALUE (bit patterns of the logged
//! end states), never by re-implementing the tree bookkeeping.
use crate::c02::fx16;
use crate::util::*;
use burn::prelude::*;
use burn::tensor::backend::AutodiffBackend;
use mini_mcmc::distributions::GradientTarget;
use mini_mcmc::nuts::NUTSChain;
use num_traits::Float;
use serde_json::{json, Value};
use std::cell::RefCell;
use std::collections::HashMap;
use std::rc::Rc;

/// Closed forms owned by the harness (oracle constants of the specification).
#[derive(Clone, Debug)]
pub enum OwnN {
    GaussP { prec: Vec<Vec<f64>> },            // -x' P x / 2
    GaussPC { prec: Vec<Vec<f64>>, c: f64 },   // c - x' P x / 2: an unnormalised log-likelihood with a large additive constant
    Gauss2Lib { mean: [f64; 2], cov: [[f64; 2]; 2] },
    Rosen2 { a: f64, b: f64 },
    Funnel,
    Steep { c: f64 },                          // -c sum x^4
    HalfLine,                                  // sum ln x - x
    Gamma { a: f64, b: f64 },                  // sum a ln x - b x: NaN log-density with a FINITE gradient for x < 0
    SqrtLine,                                  // sum ln sqrt(x) - x: log-density AND gradient are NaN for x < 0
    Cliffs { cell: f64, levels: Vec<f64>, omega2: f64, kappa: f64 },
    BoxU,                                      // uniform on (0,1)^d: 0 inside, -inf outside, gradient 0
    Norm2,                                     // -|x|: finite everywhere, gradient -x/|x| is NaN at the origin
    ExpLine,                                   // -sum x on [0, inf)^d, -inf outside: finite ON the boundary
}
impl OwnN {
    pub fn logp(&self, x: &[f64]) -> f64 {
        match self {
            OwnN::GaussP { prec } => -0.5 * (0..x.len()).map(|i| x[i] * (0..x.len()).map(|j| prec[i][j] * x[j]).sum::<f64>()).sum::<f64>(),
            OwnN::GaussPC { prec, c } => c + OwnN::GaussP { prec: prec.clone() }.logp(x),
            OwnN::Gauss2Lib { mean, cov } => crate::c02::Own::Gauss2 { mean: *mean, cov: *cov }.logp(x),
            OwnN::Rosen2 { a, b } => crate::c02::Own::Rosen2 { a: *a, b: *b }.logp(x),
            OwnN::Funnel => {
                let v = x[0];
                let ss: f64 = x[1..].iter().map(|t| t * t).sum();
                -v * v / 18.0 - 0.5 * (-v).exp() * ss - 0.5 * (x.len() - 1) as f64 * v
            }
            OwnN::Steep { c } => -c * x.iter().map(|t| t.powi(4)).sum::<f64>(),
            OwnN::HalfLine => x.iter().map(|v| v.ln() - v).sum(),
            OwnN::Gamma { a, b } => x.iter().map(|v| a * v.ln() - b * v).sum(),
            OwnN::SqrtLine => x.iter().map(|v| v.sqrt().ln() - v).sum(),
            OwnN::BoxU => if x.iter().all(|v| *v > 0.0 && *v < 1.0) { 0.0 } else { f64::NEG_INFINITY },
            OwnN::Norm2 => -x.iter().map(|v| v * v).sum::<f64>().sqrt(),
            OwnN::ExpLine => if x.iter().all(|v| *v >= 0.0) { -x.iter().sum::<f64>() } else { f64::NEG_INFINITY },
            OwnN::Cliffs { cell, levels, omega2, kappa } => cliff_level(x[0], *cell, levels) - 0.5 * kappa * x[0] * x[0] - 0.5 * omega2 * x[1] * x[1],
        }
    }
    pub fn grad(&self, x: &[f64]) -> Vec<f64> {
        match self {
            OwnN::GaussP { prec } => (0..x.len()).map(|i| -(0..x.len()).map(|j| 0.5 * (prec[i][j] + prec[j][i]) * x[j]).sum::<f64>()).collect(),
            OwnN::GaussPC { prec, .. } => OwnN::GaussP { prec: prec.clone() }.grad(x),
            OwnN::Gauss2Lib { mean, cov } => crate::c02::Own::Gauss2 { mean: *mean, cov: *cov }.grad(x),
            OwnN::Rosen2 { a, b } => crate::c02::Own::Rosen2 { a: *a, b: *b }.grad(x),
            OwnN::Funnel => {
                let v = x[0];
                let ss: f64 = x[1..].iter().map(|t| t * t).sum();
                let mut g = vec![-v / 9.0 + 0.5 * (-v).exp() * ss - 0.5 * (x.len() - 1) as f64];
                g.extend(x[1..].iter().map(|t| -(-v).exp() * t));
                g
            }
            OwnN::Steep { c } => x.iter().map(|t| -4.0 * c * t.powi(3)).collect(),
            OwnN::HalfLine => x.iter().map(|v| 1.0 / v - 1.0).collect(),
            OwnN::Gamma { a, b } => x.iter().map(|v| a / v - b).collect(),
            OwnN::SqrtLine => x.iter().map(|v| 0.5 / (v.sqrt() * v.sqrt()) - 1.0).collect(),
            OwnN::BoxU => vec![0.0; x.len()],
            OwnN::Norm2 => { let r = x.iter().map(|v| v * v).sum::<f64>().sqrt(); x.iter().map(|v| -v / r).collect() }
            OwnN::ExpLine => vec![-1.0; x.len()],
            OwnN::Cliffs { omega2, kappa, .. } => vec![-kappa * x[0], -omega2 * x[1]],
        }
    }
}

#[derive(Clone)]
pub struct GaussP {
    pub prec: Vec<Vec<f64>>,
}
impl<T: Float, B: AutodiffBackend> GradientTarget<T, B> for GaussP {
    fn unnorm_logp(&self, x: Tensor<B, 1>) -> Tensor<B, 1> {
        let d = self.prec.len();
        let flat: Vec<f64> = self.prec.iter().flatten().cloned().collect();
        let p = Tensor::<B, 2>::from_data(TensorData::new(flat, [d, d]), &x.device());
        let z = x.clone().reshape([1, d as i32]).matmul(p).reshape([d as i32]);
        (z * x).sum().mul_scalar(-0.5)
    }
}
/// The same Gaussian with an additive constant (the constant of a large data set's log-likelihood): cancels in every
/// energy DIFFERENCE, but only if the differences are taken in the target's own precision.
#[derive(Clone)]
pub struct GaussPC {
    pub prec: Vec<Vec<f64>>,
    pub c: f64,
}
impl<T: Float, B: AutodiffBackend> GradientTarget<T, B> for GaussPC {
    fn unnorm_logp(&self, x: Tensor<B, 1>) -> Tensor<B, 1> {
        <GaussP as GradientTarget<T, B>>::unnorm_logp(&GaussP { prec: self.prec.clone() }, x).add_scalar(self.c)
    }
}
#[derive(Clone)]
pub struct Funnel;
impl<T: Float, B: AutodiffBackend> GradientTarget<T, B> for Funnel {
    fn unnorm_logp(&self, x: Tensor<B, 1>) -> Tensor<B, 1> {
        let d = x.dims()[0];
        let v = x.clone().slice([0..1]);
        let rest = x.slice([1..d]);
        let ss = (rest.clone() * rest).sum();
        v.clone().powi_scalar(2).mul_scalar(-1.0 / 18.0) - (v.clone().neg().exp() * ss).mul_scalar(0.5) - v.mul_scalar(0.5 * (d - 1) as f64)
    }
}
#[derive(Clone)]
pub struct Steep {
    pub c: f64,
}
impl<T: Float, B: AutodiffBackend> GradientTarget<T, B> for Steep {
    fn unnorm_logp(&self, x: Tensor<B, 1>) -> Tensor<B, 1> {
        let x2 = x.clone() * x;
        (x2.clone() * x2).sum().mul_scalar(-self.c)
    }
}
/// Gamma(a + 1, b) per coordinate, written with `log`: scales far below 1 when b is large.
#[derive(Clone)]
pub struct GammaN {
    pub a: f64,
    pub b: f64,
}
impl<T: Float, B: AutodiffBackend> GradientTarget<T, B> for GammaN {
    fn unnorm_logp(&self, x: Tensor<B, 1>) -> Tensor<B, 1> {
        (x.clone().log().mul_scalar(self.a) - x.mul_scalar(self.b)).sum()
    }
}
#[derive(Clone)]
pub struct HalfLineN;
impl<T: Float, B: AutodiffBackend> GradientTarget<T, B> for HalfLineN {
    fn unnorm_logp(&self, x: Tensor<B, 1>) -> Tensor<B, 1> {
        (x.clone().log() - x).sum()
    }
}

/// A landscape with cliffs that exert no force: log p(a, b) = L(cell of a) - kappa a^2 / 2 - omega^2 b^2 / 2 with the
/// scripted gradient (-kappa a, -omega^2 b) (the jumps of L are NOT in the gradient).  The slice pattern along a
/// trajectory is the periodic level pattern sampled along a slow oscillation in a: slice holes in the middle of a tree,
/// isolated admissible points, divergence walls -- patterns that smooth targets almost never produce.  The two weak
/// oscillators guarantee a U-turn within half a period (without them the trajectory would be doubled for ever).
#[derive(Clone)]
pub struct Cliffs {
    pub cell: f64,
    pub levels: Vec<f64>,
    pub omega2: f64,
    pub kappa: f64,
}
pub fn cliff_level(a: f64, cell: f64, levels: &[f64]) -> f64 {
    if !a.is_finite() {
        return f64::NAN;
    }
    levels[((a / cell).floor() as i64).rem_euclid(levels.len() as i64) as usize]
}
impl<B: AutodiffBackend> GradientTarget<f64, B> for Cliffs {
    fn unnorm_logp(&self, x: Tensor<B, 1>) -> Tensor<B, 1> {
        self.unnorm_logp_and_grad(x).0
    }
    fn unnorm_logp_and_grad(&self, x: Tensor<B, 1>) -> (Tensor<B, 1>, Tensor<B, 1>) {
        let dev = x.device();
        let p: Vec<f64> = x.into_data().convert::<f64>().to_vec::<f64>().unwrap();
        let lp = cliff_level(p[0], self.cell, &self.levels) - 0.5 * self.kappa * p[0] * p[0] - 0.5 * self.omega2 * p[1] * p[1];
        (Tensor::<B, 1>::from_data(TensorData::new(vec![lp], [1]), &dev), Tensor::<B, 1>::from_data(TensorData::new(vec![-self.kappa * p[0], -self.omega2 * p[1]], [2]), &dev))
    }
}

/// Uniform density on the open box (0,1)^d, written as a masked constant: no gradient entry in the autodiff graph.
#[derive(Clone)]
pub struct BoxN;
impl<T: Float, B: AutodiffBackend> GradientTarget<T, B> for BoxN {
    fn unnorm_logp(&self, x: Tensor<B, 1>) -> Tensor<B, 1> {
        let outside = (x.clone().lower_equal_elem(0.0).int() + x.clone().greater_equal_elem(1.0).int()).sum().greater_elem(0);
        Tensor::<B, 1>::zeros([1], &x.device()).mask_fill(outside, f32::NEG_INFINITY)
    }
}
/// -|x|: a cusp at the origin, where the log-density is finite and its gradient is not.
#[derive(Clone)]
pub struct Norm2N;
impl<T: Float, B: AutodiffBackend> GradientTarget<T, B> for Norm2N {
    fn unnorm_logp(&self, x: Tensor<B, 1>) -> Tensor<B, 1> {
        x.powi_scalar(2).sum().sqrt().neg()
    }
}
/// Exponential density on the closed half-space x >= 0: the boundary itself has finite density.
#[derive(Clone)]
pub struct ExpLineN;
impl<T: Float, B: AutodiffBackend> GradientTarget<T, B> for ExpLineN {
    fn unnorm_logp(&self, x: Tensor<B, 1>) -> Tensor<B, 1> {
        let outside = x.clone().lower_elem(0.0).int().sum().greater_elem(0);
        x.sum().neg().mask_fill(outside, f32::NEG_INFINITY)
    }
}
/// The box evaluated on the host: the log-density is a tensor built from data (an untracked leaf).
#[derive(Clone)]
pub struct BoxLeafN;
impl<T: Float + burn::tensor::Element, B: AutodiffBackend> GradientTarget<T, B> for BoxLeafN {
    fn unnorm_logp(&self, x: Tensor<B, 1>) -> Tensor<B, 1> {
        let dev = x.device();
        let v: Vec<f64> = x.into_data().convert::<f64>().to_vec::<f64>().unwrap();
        let lp = if v.iter().all(|t| *t > 0.0 && *t < 1.0) { 0.0 } else { f64::NEG_INFINITY };
        Tensor::<B, 1>::from_data(TensorData::new(vec![lp], [1]), &dev)
    }
}
#[derive(Clone)]
pub struct SqrtLineN;
impl<T: Float, B: AutodiffBackend> GradientTarget<T, B> for SqrtLineN {
    fn unnorm_logp(&self, x: Tensor<B, 1>) -> Tensor<B, 1> {
        (x.clone().sqrt().log() - x).sum()
    }
}

pub type Raw = Vec<(String, Vec<i64>, Vec<f64>)>;
pub fn capture_raw() -> Rc<RefCell<Raw>> {
    let ev: Rc<RefCell<Raw>> = Default::default();
    let e2 = ev.clone();
    mini_mcmc::verif::set_sink(Some(Box::new(move |n, i, f| e2.borrow_mut().push((n.to_string(), i.to_vec(), f.to_vec())))));
    ev
}

fn bits(v: &[f64]) -> Vec<u64> {
    v.iter().map(|x| x.to_bits()).collect()
}
fn close(a: f64, b: f64, tol: f64) -> bool {
    if a.is_nan() || b.is_nan() {
        return a.is_nan() && b.is_nan();
    }
    if a.is_infinite() || b.is_infinite() || a.abs() > 1e30 || b.abs() > 1e30 {
        return (a == b) || (a.abs() > 1e30 && b.abs() > 1e30);
    }
    (a - b).abs() <= tol * (1.0 + a.abs().max(b.abs()))
}
fn uq16(u: f64) -> i64 {
    (u * 65536.0).floor() as i64
}
/// no-U-turn criterion from logged end states: "yes" (criterion holds), "no", or "tie" (within the dead zone)
fn uturn(xm: &[f64], xp: &[f64], pm: &[f64], pp: &[f64], rel: f64) -> &'static str {
    let mut d1 = 0.0;
    let mut d2 = 0.0;
    let mut mag1 = 0.0;
    let mut mag2 = 0.0;
    for i in 0..xm.len() {
        let diff = xp[i] - xm[i];
        d1 += diff * pm[i];
        d2 += diff * pp[i];
        mag1 += (diff * pm[i]).abs() + (xp[i].abs() + xm[i].abs()) * pm[i].abs() * 1e-7 / rel.max(1e-12) * rel;
        mag2 += (diff * pp[i]).abs() + (xp[i].abs() + xm[i].abs()) * pp[i].abs() * 1e-7 / rel.max(1e-12) * rel;
    }
    if !(d1.is_finite() && d2.is_finite()) {
        return "tie"; // NaN/inf end states: the comparison `>= 0` on NaN is false, on inf it depends on rounding
    }
    let z1 = d1.abs() <= rel * mag1;
    let z2 = d2.abs() <= rel * mag2;
    if (d1 < 0.0 && !z1) || (d2 < 0.0 && !z2) {
        "no"
    } else if z1 || z2 {
        "tie"
    } else {
        "yes"
    }
}

pub struct Projected {
    pub tree: Vec<Value>,  // events for Trace_NutsTree
    pub adapt: Vec<Value>, // events for Trace_DualAvg
    pub bad: Vec<Value>,   // C14 events (state kinds per transition)
    pub depth_max: i64,
    pub moved: u64,
}

/// Projects the raw hook events of ONE chain (possibly several run() calls) onto spec events.
pub fn project(raw: &Raw, own: &OwnN, tol: f64) -> Projected {
    project_with(raw, own, tol, 0.8, false)
}

/// `delta`: requested acceptance statistic; `forced`: the step size was set by the harness before the first run.
pub fn project_with(raw: &Raw, own: &OwnN, tol: f64, delta: f64, forced: bool) -> Projected {
    let mut out = Projected { tree: vec![], adapt: vec![], bad: vec![], depth_max: 0, moved: 0 };
    let mut known: HashMap<(Vec<u64>, Vec<u64>), i64> = HashMap::new(); // (pos, mom) -> offset
    let mut by_pos: HashMap<Vec<u64>, Vec<i64>> = HashMap::new();
    let mut dim = 0usize;
    let (mut eps, mut joint0, mut logu) = (0.0, 0.0, 0.0);
    let mut leaf_alpha_sum = 0.0;
    let mut ka: i64 = 0; // adapting transitions of this chain so far
    let mut pending_merge: Vec<Value> = vec![]; // merges waiting for their nuts_ret
    let mut theta_off: i64 = 0;
    let mut pos_before: Vec<f64> = vec![];
    let mut tree_ev: Option<Value> = None;
    // adaptation state as last logged (f64 images of the chain's values)
    let (mut p_eps, mut p_epsbar, mut p_hbar, mut p_mu) = (f64::NAN, 1.0f64, 0.0f64, f64::NAN);
    let atol = if tol > 1e-5 { 2e-5 } else { 1e-9 };
    let resid = |obs: f64, exp: f64, scale: f64| -> i64 {
        if !obs.is_finite() || !exp.is_finite() { return if obs.is_finite() == exp.is_finite() { 0 } else { 1000 }; }
        (((obs - exp).abs() / (atol * (1.0 + scale))).ceil() as i64).min(1000)
    };
    let off_of_pos = |by_pos: &HashMap<Vec<u64>, Vec<i64>>, p: &[f64]| -> i64 {
        match by_pos.get(&bits(p)) {
            None => -999999,
            Some(v) if v.len() == 1 => v[0],
            Some(_) => -888888, // ambiguous (coinciding points): not asserted
        }
    };
    for (name, ints, f) in raw {
        match name.as_str() {
            "nuts_init" => {
                out.adapt.push(json!({"e": "init", "m": ints[0], "nc": ints[1], "nd": ints[2], "eps": fx16(f[0].ln()), "mu": fx16(f[1]),
                    "eps_pos_finite": f[0] > 0.0 && f[0].is_finite(), "forced": forced}));
                p_eps = f[0];
                p_mu = f[1];
            }
            "nuts_begin" => {
                dim = ints[1] as usize;
                eps = f[0];
                joint0 = f[1];
                logu = f[2];
                let pos = &f[3..3 + dim];
                let mom = &f[3 + dim..3 + 2 * dim];
                known.clear();
                by_pos.clear();
                known.insert((bits(pos), bits(mom)), 0);
                by_pos.entry(bits(pos)).or_default().push(0);
                theta_off = 0;
                pos_before = pos.to_vec();
                let j_own = own.logp(pos) - 0.5 * mom.iter().map(|v| v * v).sum::<f64>();
                out.tree.push(json!({"e": "begin", "m": ints[0], "joint_ok": close(joint0, j_own, tol * 20.0) || !j_own.is_finite(),
                    "slice_below": logu <= joint0 || joint0.is_nan()}));
                leaf_alpha_sum = 0.0;
            }
            "nuts_dir" => {
                out.tree.push(json!({"e": "dir", "j": ints[0], "v": ints[1], "n": ints[2], "uq": uq16(f[0])}));
                out.depth_max = out.depth_max.max(ints[0]);
                leaf_alpha_sum = 0.0;
            }
            "nuts_leaf" => {
                let v = ints[0];
                let joint = f[0];
                let alpha = f[1];
                let pin = &f[2..2 + dim];
                let min_ = &f[2 + dim..2 + 2 * dim];
                let pout = &f[2 + 2 * dim..2 + 3 * dim];
                let mout = &f[2 + 3 * dim..2 + 4 * dim];
                let in_off = known.get(&(bits(pin), bits(min_))).copied();
                let off = in_off.map(|o| o + v).unwrap_or(-999999);
                if in_off.is_some() {
                    known.insert((bits(pout), bits(mout)), off);
                    by_pos.entry(bits(pout)).or_default().push(off);
                }
                // one leapfrog step of the harness's own integrator from the logged input
                let e = v as f64 * eps;
                let g = own.grad(pin);
                let ph: Vec<f64> = min_.iter().zip(&g).map(|(p, g)| p + 0.5 * e * g).collect();
                let xe: Vec<f64> = pin.iter().zip(&ph).map(|(x, p)| x + e * p).collect();
                let g2 = own.grad(pout);
                let pe: Vec<f64> = ph.iter().zip(&g2).map(|(p, g)| p + 0.5 * e * g).collect();
                let blown = pout.iter().chain(mout.iter()).chain(xe.iter()).chain(pe.iter()).any(|t| !t.is_finite() || t.abs() > 1e30);
                let lf_ok = blown || (0..dim).all(|i| close(pout[i], xe[i], tol) && close(mout[i], pe[i], tol * (1.0 + 0.5 * eps * g2[i].abs() + ph[i].abs())));
                let j_own = own.logp(pout) - 0.5 * mout.iter().map(|t| t * t).sum::<f64>();
                let joint_ok = blown || close(joint, j_own, tol * 20.0) || (!joint.is_finite() && !j_own.is_finite());
                let dj = joint - logu;
                let dj_sign = if joint.is_nan() || logu.is_nan() { 2 } else if logu < joint { 1 } else if logu == joint { 0 } else { -1 };
                // (f64::min ignores a NaN operand: keep the NaN explicit)
                let a_own = if (joint - joint0).is_nan() { f64::NAN } else { (joint - joint0).exp().min(1.0) };
                // min(1, exp(NaN)) is not defined by the property: a leaf of undefined energy may count 0 (rejection), NaN, or --
                // the pinned code before the fix -- 1; what that does to the step size is C04's business (finite throughout)
                let alpha_ok = close(alpha, a_own, 1e-3) || (a_own.is_nan() && (alpha == 0.0 || alpha == 1.0 || alpha.is_nan()));
                leaf_alpha_sum += alpha;
                out.tree.push(json!({"e": "leaf", "v": v, "off": off, "n": ints[1], "s": ints[2], "lf_ok": lf_ok, "joint_ok": joint_ok,
                    "dj": fx16(dj), "dj_sign": dj_sign, "ds": fx16(joint - (logu - 1000.0)), "alpha_ok": alpha_ok,
                    "joint_kind": fx16(joint)["k"]}));
            }
            "nuts_merge" => {
                let c1 = &f[1..1 + dim];
                let c2 = &f[1 + dim..1 + 2 * dim];
                pending_merge.push(json!({"j": ints[0], "n1": ints[1], "n2": ints[2], "s1": ints[3], "s2": ints[4], "na1": ints[5], "na2": ints[6],
                    "uq": uq16(f[0]), "c1": off_of_pos(&by_pos, c1), "c2": off_of_pos(&by_pos, c2)}));
            }
            "nuts_ret" => {
                let jj = ints[0];
                let cand = &f[1..1 + dim];
                let xm = &f[1 + dim..1 + 2 * dim];
                let xp = &f[1 + 2 * dim..1 + 3 * dim];
                let pm = &f[1 + 3 * dim..1 + 4 * dim];
                let pp = &f[1 + 4 * dim..1 + 5 * dim];
                let lo = known.get(&(bits(xm), bits(pm))).copied().unwrap_or(-999999);
                let hi = known.get(&(bits(xp), bits(pp))).copied().unwrap_or(-999999);
                let cand_off = off_of_pos(&by_pos, cand);
                let merged = pending_merge.last().map(|m| m["j"].as_i64().unwrap() == jj).unwrap_or(false);
                if merged {
                    let m = pending_merge.pop().unwrap();
                    out.tree.push(json!({"e": "merge", "j": jj, "n1": m["n1"], "n2": m["n2"], "s1": m["s1"], "s2": m["s2"], "na1": m["na1"], "na2": m["na2"],
                        "uq": m["uq"], "c1": m["c1"], "c2": m["c2"], "cand": cand_off, "n": ints[1], "s": ints[2], "na": ints[3],
                        "ut": uturn(xm, xp, pm, pp, 1e-4), "lo": lo, "hi": hi}));
                } else {
                    out.tree.push(json!({"e": "early", "j": jj, "cand": cand_off, "n": ints[1], "s": ints[2], "na": ints[3], "lo": lo, "hi": hi}));
                }
            }
            "nuts_tree" => {
                let cand = &f[2..2 + dim];
                tree_ev = Some(json!({"j": ints[0], "np": ints[1], "sp": ints[2], "na": ints[3], "uq": uq16(f[0]), "alpha": f[1], "cand": off_of_pos(&by_pos, cand)}));
            }
            "nuts_doubled" => {
                let t = tree_ev.take().unwrap_or(json!({}));
                let th = &f[0..dim];
                let xm = &f[dim..2 * dim];
                let xp = &f[2 * dim..3 * dim];
                let pm = &f[3 * dim..4 * dim];
                let pp = &f[4 * dim..5 * dim];
                let new_theta = off_of_pos(&by_pos, th);
                let lo = known.get(&(bits(xm), bits(pm))).copied().unwrap_or(-999999);
                let hi = known.get(&(bits(xp), bits(pp))).copied().unwrap_or(-999999);
                let alpha = t["alpha"].as_f64().unwrap_or(f64::NAN);
                let alpha_ok = close(alpha, leaf_alpha_sum, 1e-3) || (alpha.is_nan() && leaf_alpha_sum.is_nan());
                out.tree.push(json!({"e": "double", "j": ints[0], "np": t["np"], "sp": t["sp"], "na": t["na"], "uq": t["uq"], "cand": t["cand"],
                    "theta": new_theta, "accepted": new_theta != theta_off && new_theta != -888888, "n": ints[1], "s": ints[2],
                    "ut": uturn(xm, xp, pm, pp, 1e-4), "lo": lo, "hi": hi, "alpha_ok": alpha_ok}));
                if new_theta != -888888 {
                    theta_off = new_theta;
                }
            }
            "nuts_end" => {
                let pos = &f[5..5 + dim];
                let is_theta = by_pos.get(&bits(pos)).map(|v| v.contains(&theta_off) || theta_off == -888888).unwrap_or(false);
                let moved = bits(pos) != bits(&pos_before);
                if moved {
                    out.moved += 1;
                }
                out.tree.push(json!({"e": "end", "m": ints[0], "na": ints[2], "pos_is_theta": is_theta, "moved": moved}));
                // the three recurrences re-evaluated in f64 from the previously logged values; the dual averaging advances on
                // ADAPTING transitions only (m <= n_discard), indexed by their own count ka -- a warm-up resumed by a later
                // run() call continues where the previous one stopped; on a frozen transition H-bar does not move
                let adapting = ints[0] <= ints[1];
                if adapting {
                    ka += 1;
                }
                let m = ka as f64;
                let a = f[4] / ints[2] as f64;
                let eta = 1.0 / (m + 10.0);
                let h_exp = if adapting { (1.0 - eta) * p_hbar + eta * (delta - a) } else { p_hbar };
                let e_exp = (p_mu - m.sqrt() / 0.05 * f[2]).exp();
                let k = m.powf(-0.75);
                let b_exp = ((1.0 - k) * p_epsbar.ln() + k * f[0].ln()).exp();
                let (rh, re, rb) = (resid(f[2], h_exp, p_hbar.abs() + 1.0),
                                    resid(f[0].ln(), e_exp.ln(), p_mu.abs() + 20.0 * m.sqrt() * f[2].abs()),
                                    resid(f[1].ln(), b_exp.ln(), p_epsbar.ln().abs() + f[0].ln().abs()));
                out.adapt.push(json!({"e": "step", "m": ints[0], "nd": ints[1], "ka": ka, "na": ints[2], "eps": fx16(f[0].ln()), "epsbar": fx16(f[1].ln()),
                    "hbar": fx16(f[2]), "mu": fx16(f[3]), "alpha": fx16(f[4]), "eps_pos_finite": f[0] > 0.0 && f[0].is_finite(),
                    "epsbar_pos_finite": f[1] > 0.0 && f[1].is_finite(), "rh": rh, "re": re, "rb": rb, "a_mean": fx16(a)}));
                let _ = p_eps;
                p_eps = f[0];
                p_epsbar = f[1];
                p_hbar = f[2];
                let lp_old = own.logp(&pos_before);
                let lp_new = own.logp(pos);
                out.bad.push(json!({"e": "nuts", "m": ints[0], "lp_old": fx16(lp_old), "lp_new": fx16(lp_new),
                    "coords_finite": pos.iter().all(|t| t.is_finite()), "moved": moved}));
            }
            _ => {}
        }
    }
    out
}

/// Runs one chain: `runs` = consecutive (n_collect, n_discard) calls; optional forced step size.
#[allow(clippy::too_many_arguments)]
pub fn run_chain<B: AutodiffBackend, T, G>(target: G, init: Vec<f64>, accept_p: f64, seed: u64, runs: &[(usize, usize)], force_eps: Option<f64>) -> (Raw, Option<String>)
where
    T: Float + burn::tensor::ElementConversion + burn::tensor::Element + rand_distr::uniform::SampleUniform + num_traits::FromPrimitive,
    G: GradientTarget<T, B> + Sync,
    rand_distr::StandardNormal: rand::distr::Distribution<T>,
    rand_distr::StandardUniform: rand_distr::Distribution<T>,
    rand_distr::Exp1: rand_distr::Distribution<T>,
{
    run_chain_tp::<B, T, G>(target, init, accept_p, seed, runs, force_eps, &[])
}

/// The same with "teleports": `position` is a public field of the chain; `teleports[k]`, if present, is assigned to it before the
/// k-th run() call (restarting a warmed-up chain somewhere else).  The transition that follows must be Algorithm 6 FROM THAT POINT:
/// log-density and gradient of the start are those of the point the chain is at, not of wherever it was.
#[allow(clippy::too_many_arguments)]
pub fn run_chain_tp<B: AutodiffBackend, T, G>(target: G, init: Vec<f64>, accept_p: f64, seed: u64, runs: &[(usize, usize)], force_eps: Option<f64>, teleports: &[Option<Vec<f64>>]) -> (Raw, Option<String>)
where
    T: Float + burn::tensor::ElementConversion + burn::tensor::Element + rand_distr::uniform::SampleUniform + num_traits::FromPrimitive,
    G: GradientTarget<T, B> + Sync,
    rand_distr::StandardNormal: rand::distr::Distribution<T>,
    rand_distr::StandardUniform: rand_distr::Distribution<T>,
    rand_distr::Exp1: rand_distr::Distribution<T>,
{
    let initt: Vec<T> = init.iter().map(|v| T::from(*v).unwrap()).collect();
    let mut ch = NUTSChain::<T, B, G>::new(target, initt, T::from(accept_p).unwrap()).set_seed(seed);
    if let Some(e) = force_eps {
        ch.verif_set_epsilon(T::from(e).unwrap());
    }
    let ev = capture_raw();
    let r = catch(|| {
        for (k, (nc, nd)) in runs.iter().enumerate() {
            if let Some(Some(p)) = teleports.get(k) {
                let dev = ch.position.device();
                let data: Vec<T> = p.iter().map(|v| T::from(*v).unwrap()).collect();
                ch.position = Tensor::<B, 1>::from_data(TensorData::new(data, [p.len()]), &dev);
            }
            let _ = ch.run(*nc, *nd);
        }
    });
    mini_mcmc::verif::set_sink(None);
    let raw = ev.borrow().clone();
    (raw, r.err())
}
