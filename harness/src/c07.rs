//! C07 — same seed, same output.  One scenario (spec/Gen_Seeds.tla) per process: the parent
//! sets RAYON_NUM_THREADS; we build the sampler from fixed inputs and the given seed, run it
//! (optionally with other samplers hammering the process concurrently, with progress
//! reporting, or as the second run in this process) and print a hash of the output bits.
use crate::util::*;
use burn::backend::{Autodiff, NdArray};
use mini_mcmc::core::{init_with_seed, ChainRunner};
use mini_mcmc::distributions::{Conditional, DiffableGaussian2D, Gaussian2D, IsotropicGaussian, Proposal, Rosenbrock2D};
use mini_mcmc::gibbs::GibbsSampler;
use mini_mcmc::hmc::HMC;
use mini_mcmc::metropolis_hastings::MetropolisHastings;
use mini_mcmc::nuts::NUTS;
use ndarray::{arr1, arr2};
use rand::rngs::SmallRng;
use rand::{Rng, SeedableRng};
use serde_json::json;
use std::sync::atomic::{AtomicBool, Ordering};
use std::sync::Arc;

type B32 = Autodiff<NdArray<f32>>;

fn fnv(bits: impl Iterator<Item = u64>) -> String {
    let mut h: u64 = 0xcbf29ce484222325;
    let mut n = 0u64;
    for b in bits {
        for byte in b.to_le_bytes() {
            h ^= byte as u64;
            h = h.wrapping_mul(0x100000001b3);
        }
        n += 1;
    }
    format!("{h:016x}:{n}")
}

/// A conditional that is deterministic given its state (its own seeded generator).
#[derive(Clone)]
struct SeededCond {
    rng: SmallRng,
}
impl Conditional<f64> for SeededCond {
    fn sample(&mut self, i: usize, given: &[f64]) -> f64 {
        let z: f64 = self.rng.random();
        0.5 * given[(i + 1) % given.len()] + z
    }
}

fn run_mh(n: usize, seed: u64, progress: bool, pre: bool) -> String {
    let target = Gaussian2D::<f64> { mean: arr1(&[0.0, 0.5]), cov: arr2(&[[1.0, 0.3], [0.3, 2.0]]) };
    let prop = IsotropicGaussian::<f64>::new(0.8).set_seed(999);
    let mut s = if pre {
        // the sampler is USED before it is seeded (an unseeded run), put back on its start through the public fields, then
        // seeded: the seed must reset every stream the sampler owns, whatever it drew before (Seeds!Closed has no history argument)
        let inits = init_with_seed::<f64>(n, 2, 7);
        let mut s = MetropolisHastings::new(target, prop, inits.clone());
        let _ = s.run(3, 1).unwrap();
        for (c, st) in s.chains.iter_mut().zip(&inits) {
            c.current_state = st.clone();
        }
        s.seed(seed)
    } else {
        MetropolisHastings::new(target, prop, init_with_seed(n, 2, 7)).seed(seed)
    };
    let out = if progress { s.run_progress(20, 5).unwrap().0 } else { s.run(20, 5).unwrap() };
    fnv(out.iter().map(|x| x.to_bits()))
}
fn run_gibbs(n: usize, seed: u64, progress: bool, pre: bool) -> String {
    let mut s = if pre {
        let inits = init_with_seed::<f64>(n, 3, 7);
        let mut s = GibbsSampler::new(SeededCond { rng: SmallRng::seed_from_u64(5) }, inits.clone());
        let _ = s.run(3, 1).unwrap();
        for (c, st) in s.chains.iter_mut().zip(&inits) {
            c.current_state = st.clone();
            c.target = SeededCond { rng: SmallRng::seed_from_u64(5) }; // the conditional's generator is the user's, not the sampler's
        }
        s.target = SeededCond { rng: SmallRng::seed_from_u64(5) };
        s.set_seed(seed)
    } else {
        GibbsSampler::new(SeededCond { rng: SmallRng::seed_from_u64(5) }, init_with_seed(n, 3, 7)).set_seed(seed)
    };
    let out = if progress { s.run_progress(20, 5).unwrap().0 } else { s.run(20, 5).unwrap() };
    fnv(out.iter().map(|x| x.to_bits()))
}
fn run_hmc(n: usize, seed: u64, progress: bool, pre: bool) -> String {
    use burn::prelude::*;
    if n % 2 == 1 {
        // odd chain counts run in double precision (the output is a function of (kind, n, seed) either way)
        type B64 = Autodiff<NdArray<f64>>;
        let target = DiffableGaussian2D::<f64>::new([0.0, 1.0], [[1.5, 0.4], [0.4, 1.0]]);
        let mut s = if pre {
            let inits = init_with_seed::<f64>(n, 2, 7);
            let mut s = HMC::<f64, B64, _>::new(target, inits.clone(), 0.15, 4);
            let _ = s.run(3, 1);
            let dev = s.positions.device();
            s.positions = Tensor::<B64, 2>::from_data(TensorData::new(inits.concat(), [n, 2]), &dev);
            s.set_seed(seed)
        } else {
            HMC::<f64, B64, _>::new(target, init_with_seed(n, 2, 7), 0.15, 4).set_seed(seed)
        };
        let out = if progress { s.run_progress(12, 3).unwrap().0 } else { s.run(12, 3) };
        return fnv(out.into_data().to_vec::<f64>().unwrap().into_iter().map(|x| x.to_bits()));
    }
    let target = DiffableGaussian2D::<f32>::new([0.0, 1.0], [[1.5, 0.4], [0.4, 1.0]]);
    let mut s = if pre {
        let inits = init_with_seed::<f32>(n, 2, 7);
        let mut s = HMC::<f32, B32, _>::new(target, inits.clone(), 0.15, 4);
        let _ = s.run(3, 1);
        let dev = s.positions.device();
        s.positions = Tensor::<B32, 2>::from_data(TensorData::new(inits.concat(), [n, 2]), &dev);
        s.set_seed(seed)
    } else {
        HMC::<f32, B32, _>::new(target, init_with_seed(n, 2, 7), 0.15, 4).set_seed(seed)
    };
    let out = if progress { s.run_progress(12, 3).unwrap().0 } else { s.run(12, 3) };
    fnv(out.into_data().convert::<f64>().to_vec::<f64>().unwrap().into_iter().map(|x| x.to_bits()))
}
fn run_nuts(n: usize, seed: u64, progress: bool) -> String {
    let target = Rosenbrock2D::<f32> { a: 1.0, b: 3.0 };
    // chains 2k and 2k+1 start from the SAME position (identical starts are explicitly part of the property)
    let base = init_with_seed::<f32>(n, 2, 7);
    let inits: Vec<Vec<f32>> = (0..n).map(|i| base[i / 2].clone()).collect();
    let mut s = NUTS::<f32, B32, _>::new(target, inits, 0.8).set_seed(seed);
    let out = if progress { s.run_progress(8, 4).unwrap().0 } else { s.run(8, 4) };
    fnv(out.into_data().convert::<f64>().to_vec::<f64>().unwrap().into_iter().map(|x| x.to_bits()))
}
fn run_kind(kind: &str, n: usize, seed: u64, progress: bool) -> String {
    run_kind_pre(kind, n, seed, progress, false)
}
fn run_kind_pre(kind: &str, n: usize, seed: u64, progress: bool, pre: bool) -> String {
    match kind {
        "MH" => run_mh(n, seed, progress, pre),
        "Gibbs" => run_gibbs(n, seed, progress, pre),
        "HMC" => run_hmc(n, seed, progress, pre),
        "NUTS" => run_nuts(n, seed, progress),
        k => tool_error(&format!("kind {k}")),
    }
}

pub fn scenario(args: &[String]) {
    let sc: serde_json::Value = serde_json::from_str(&args[0]).unwrap_or_else(|e| tool_error(&format!("scenario json: {e}")));
    let kind = sc["kind"].as_str().unwrap().to_string();
    let n = sc["n"].as_u64().unwrap() as usize;
    let seed: u64 = sc["seed"].as_str().unwrap().parse().unwrap();
    let progress = sc["progress"].as_bool().unwrap();
    let second = sc["second"].as_bool().unwrap();
    let pre = sc["pre"].as_bool().unwrap_or(false);
    let stop = Arc::new(AtomicBool::new(false));
    let mut bg = vec![];
    let conc = sc["concurrent"].as_str().unwrap().to_string();
    if conc != "none" {
        for t in 0..2u64 {
            let stop = stop.clone();
            let k = if conc == "same" { kind.clone() } else { "HMC".to_string() };
            bg.push(std::thread::spawn(move || {
                let mut i = 0u64;
                while !stop.load(Ordering::SeqCst) {
                    let _ = catch(|| run_kind(&k, 2, 1000 + 17 * t + i, false));
                    i += 1;
                }
            }));
        }
        std::thread::sleep(std::time::Duration::from_millis(30));
    }
    let mut hashes = vec![];
    let mut panic_msg = None;
    for _ in 0..(if second { 2 } else { 1 }) {
        match catch(|| run_kind_pre(&kind, n, seed, progress, pre)) {
            Ok(h) => hashes.push(h),
            Err(e) => {
                panic_msg = Some(e);
                break;
            }
        }
    }
    stop.store(true, Ordering::SeqCst);
    for b in bg {
        let _ = b.join();
    }
    println!("{}", json!({"summary": true, "hash": hashes.last(), "all": hashes, "panic": panic_msg,
        "threads": rayon::current_num_threads()}));
}
