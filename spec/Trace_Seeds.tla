----------------------------- MODULE Trace_Seeds -----------------------------
(* Trace validation for C07 / C08.                                              *)
(* "run" events: one executed scenario of Gen_Seeds with the hash of its output.*)
(*   The specification keeps a memo from the closed-form stream description     *)
(*   (expect, plus the NUTS progress offset class) to the observed hash: the    *)
(*   first observation binds, every later scenario with the same description    *)
(*   must reproduce it bit for bit, and a different description of the same     *)
(*   kind and size must NOT collide with it (different seeds, different output).*)
(* "fp" events: stream fingerprints of the generators of one sampler; they must *)
(*   satisfy Seeds!DistinctStreams.                                             *)
EXTENDS Integers, Sequences, FiniteSets, Json, IOUtils, TLC
Rec == ndJsonDeserialize(IOEnv.TRACE)
VARIABLES l, memo
vars == <<l, memo>>
Init == l = 1 /\ memo = {}

Key(e) == <<e.kind, e.n, e.expect, e.cls>>
Run ==
  /\ l <= Len(Rec) /\ Rec[l].e = "run"
  /\ LET e == Rec[l] IN
     /\ e.panic = "none"                                        \* NoPanic
     /\ \A m \in memo : m.key = Key(e) => m.hash = e.hash       \* Reproducible
     /\ \A m \in memo : (m.key # Key(e) /\ m.key[1] = e.kind /\ m.key[2] = e.n /\ m.key[4] = e.cls /\ e.kind # "Gibbs")
                            => m.hash # e.hash                  \* SeedSensitive
     /\ memo' = memo \cup {[key |-> Key(e), hash |-> e.hash]}
  /\ l' = l + 1

Distinct(seq) == \A i, j \in 1..Len(seq) : i # j => seq[i] # seq[j]
Fp ==
  /\ l <= Len(Rec) /\ Rec[l].e = "fp"
  /\ LET e == Rec[l] IN
     /\ Distinct(e.acc)                      \* no two chains share an acceptance / main stream
     /\ Distinct(e.prop)                     \* nor a proposal stream
     /\ \A i \in 1..Len(e.prop), j \in 1..Len(e.accasprop) : e.prop[i] # e.accasprop[j]
     /\ Distinct(e.after)                    \* chains started from one state separate after one transition
  /\ UNCHANGED memo /\ l' = l + 1
Next == Run \/ Fp
Spec == Init /\ [][Next]_vars
TraceAccepted ==
  LET d == TLCGet("stats").diameter IN
  /\ PrintT(<<"TRACE_MATCHED", d - 1, Len(Rec)>>)
  /\ d - 1 = Len(Rec)
=============================================================================
