CONSTANTS
  C = 2
  N = 5
  Vals = {0, 1, 3}
  EmitReplay = TRUE
SPECIFICATION Spec
INVARIANTS Theorems Emit
CHECK_DEADLOCK FALSE
