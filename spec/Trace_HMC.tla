------------------------------ MODULE Trace_HMC ------------------------------
(* Trace validation of HMC::step on arbitrary targets (impl -> spec).            *)
(* One "row" event per (step, chain).  The harness re-evaluates every relation   *)
(* of HMC.tla from the positions/momenta the hooks report and ITS OWN closed     *)
(* form of the target (log-density and gradient are oracle constants of the      *)
(* specification) and logs:                                                      *)
(*   L, nlf        requested / observed number of leapfrog sub-steps             *)
(*   lfres         worst residual of the HalfKick/Drift/GradEval/HalfKick        *)
(*                 relations over the sub-steps, in units of the tolerance       *)
(*   prop_is_last  the proposal is the end point of the logged trajectory        *)
(*   h0_ok, h1_ok  reported energies = -log p + |p|^2/2 at the logged points     *)
(*   delta, lnu    H0 - H1 and ln u as ExtReal in 2^-16 units                    *)
(*   is_old/is_prop  the row after the step is bit-identical to the old row /    *)
(*                 to the proposal                                               *)
(*   lp_old, lp_new, coords_finite   C14: density kinds before / after           *)
(* The specification decides the Metropolis test (rule U: a margin of 2^-8 for   *)
(* f32 energies) and checks Select and the bad-state invariant.                  *)
EXTENDS Integers, Sequences, Json, IOUtils, TLC, ExtReal
Rec == ndJsonDeserialize(IOEnv.TRACE)
Budget == 10
Margin == 256        \* 2^-8 in 2^-16 units
VARIABLES l
Init == l = 1
Gt0(a, m) == a.k = "pinf" \/ (a.k = "fin" /\ a.v >= m)

\* ln u <= delta:  certainly / certainly not / undecided
MustAccept(e) ==
  \/ e.uzero /\ e.delta.k \in {"fin", "pinf", "ninf"}          \* -inf <= anything that is not NaN
  \/ (e.delta.k = "pinf" /\ e.lnu.k # "nan")
  \/ (e.delta.k = "fin" /\ e.lnu.k = "fin" /\ e.delta.v - e.lnu.v >= Margin)
MustReject(e) ==
  \/ e.delta.k = "nan"
  \/ (e.delta.k = "ninf" /\ ~e.uzero)
  \/ (e.delta.k = "fin" /\ e.lnu.k = "fin" /\ e.lnu.v - e.delta.v >= Margin)

Row ==
  /\ l <= Len(Rec) /\ Rec[l].e = "row"
  /\ LET e == Rec[l] IN
     /\ e.nlf = e.L                                  \* exactly L leapfrog steps
     /\ e.lfres <= Budget                            \* each one a velocity-Verlet step of the target
     /\ e.prop_is_last /\ e.h0_ok /\ e.h1_ok
     /\ e.is_old \/ e.is_prop                        \* Select: never a blend
     /\ MustAccept(e) => e.is_prop
     /\ MustReject(e) => e.is_old
     \* C14: from a good state the row never lands on a zero-/NaN-density or non-finite point
     \* (acceptance draws equal to exactly 0 excepted)
     /\ (GoodDensity(e.lp_old) /\ ~e.uzero) => (GoodDensity(e.lp_new) /\ e.coords_finite)
  /\ l' = l + 1
Other ==
  /\ l <= Len(Rec) /\ Rec[l].e = "new"
  /\ l' = l + 1
Next == Row \/ Other
Spec == Init /\ [][Next]_l
TraceAccepted ==
  LET d == TLCGet("stats").diameter IN
  /\ PrintT(<<"TRACE_MATCHED", d - 1, Len(Rec)>>)
  /\ d - 1 = Len(Rec)
=============================================================================
