----------------------------- MODULE GibbsJoint -----------------------------
(* "For the full conditionals of any joint distribution the step leaves that   *)
(* joint distribution invariant": checked exactly, over every joint weight     *)
(* table on two coordinates with V values each and weights in WVals.           *)
(* The sweep kernel is the one Gibbs!Refresh defines: coordinate 1 is drawn    *)
(* from pi(. | s2), then coordinate 2 from pi(. | NEW coordinate 1).           *)
(* Negative control: the stale-snapshot sweep (coordinate 2 conditioned on the *)
(* OLD coordinate 1) keeps both marginals but breaks the joint -- TLC must     *)
(* find that.                                                                  *)
EXTENDS Integers, FiniteSets
CONSTANTS V, WVals
Val == 0..(V - 1)
VARIABLES w, phase
Init == w \in [Val \X Val -> WVals] /\ phase = 0
Next == phase = 0 /\ phase' = 1 /\ UNCHANGED w
Spec == Init /\ [][Next]_<<w, phase>>

RECURSIVE SumOver(_, _)
SumOver(f, S) == IF S = {} THEN 0 ELSE LET e == CHOOSE e \in S : TRUE IN f[e] + SumOver(f, S \ {e})
RECURSIVE ProdOver(_, _)
ProdOver(f, S) == IF S = {} THEN 1 ELSE LET e == CHOOSE e \in S : TRUE IN f[e] * ProdOver(f, S \ {e})

R == [b \in Val |-> SumOver([a \in Val |-> w[<<a, b>>]], Val)]   \* normaliser of pi(. | s2 = b)
C == [a \in Val |-> SumOver([b \in Val |-> w[<<a, b>>]], Val)]   \* normaliser of pi(. | s1 = a)
RP == ProdOver(R, Val)
CP == ProdOver(C, Val)

\* P(s -> t) * RP * CP for the fresh sweep and for the stale-snapshot sweep
Fresh(s, t) == (w[<<t[1], s[2]>>] * (RP \div R[s[2]])) * (w[<<t[1], t[2]>>] * (CP \div C[t[1]]))
Stale(s, t) == (w[<<t[1], s[2]>>] * (RP \div R[s[2]])) * (w[<<s[1], t[2]>>] * (CP \div C[s[1]]))

Invariant(P(_, _)) ==
  \A t \in Val \X Val :
    SumOver([s \in Val \X Val |-> w[s] * P(s, t)], Val \X Val) = w[t] * RP * CP

JointInvariant == phase = 1 => Invariant(Fresh)
NegControl_StaleSnapshot == phase = 1 => Invariant(Stale)
=============================================================================
