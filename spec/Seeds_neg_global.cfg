CONSTANTS
  W = 8
  MaxChains = 2
  Steps = 1
  Derive = "wrapping"
  PropSeed = "perchain"
  HmcDraws = "global"
SPECIFICATION Spec
INVARIANTS SameSeedSameOutput
CHECK_DEADLOCK FALSE
