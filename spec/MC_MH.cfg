CONSTANTS
  State = {0, 1}
  LogVals <- MCLogVals
  UClass <- MCUClass
SPECIFICATION Spec
INVARIANTS TypeOK NeverToBadState NaNRejects AcceptedIsGood ZeroDrawRule
PROPERTIES RejectKeeps
CHECK_DEADLOCK FALSE
