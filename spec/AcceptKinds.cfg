INIT Init
NEXT Next
INVARIANTS HmcGood NutsGood SliceImpliesContinue NaNStops
CHECK_DEADLOCK FALSE
