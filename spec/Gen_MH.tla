------------------------------- MODULE Gen_MH -------------------------------
(* Behaviour generator for replay (spec -> impl): every combination of the    *)
(* four log-values one MH step reads and every acceptance-draw class, with    *)
(* the move MH!Step makes.  One JSON line per case.                            *)
EXTENDS Integers, Json, TLC, ExtReal

VARIABLES lp, lq, x, last
M == INSTANCE MH WITH State <- {0, 1},
                      LogVals <- {NInf, PInf, NaN} \cup {Fin(1000 * k) : k \in -2..2} \cup {Fin(-800000)},
                      UClass <- -1..5

\* -800: a finite log-value far below ln of the smallest positive f64 (-745) and f32 (-103): with u = 0 exactly
\* (ln u = -inf) a finite ratio of -800 is still accepted, with the smallest positive draw it is not
Vals == {NInf, PInf, NaN} \cup {Fin(1000 * k) : k \in -2..2} \cup {Fin(-800000)}

Init ==
  /\ lp \in [{0, 1} -> Vals]
  /\ lq \in {f \in [{0, 1} \X {0, 1} -> Vals] : f[<<0, 0>>] = Fin(0) /\ f[<<1, 1>>] = Fin(0)}
  /\ x = 0
  /\ last = [from |-> 0, y |-> 0, u |-> 1, acc |-> FALSE]

Next == \E j \in -1..5 : M!Step(1, j)

Emit ==
  (last.y = 1) =>
    PrintT(<<"REPLAY", ToJson([lpx |-> lp[0], lpy |-> lp[1], lqf |-> lq[<<0, 1>>],
                               lqb |-> lq[<<1, 0>>], u |-> last.u, acc |-> last.acc,
                               xn |-> x])>>)
Depth1 == last.y = 0
=============================================================================
