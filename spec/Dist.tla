-------------------------------- MODULE Dist --------------------------------
(* Built-in densities of src/distributions.rs on integer lattices, as exact     *)
(* "affine forms"                                                               *)
(*     value = rn/rd + c2pi * ln(2 pi) + sum_j (cn_j/cd_j) * ln(k_j)            *)
(* so that normalising constants are exact; the harness evaluates the three     *)
(* transcendental constants in f64.  Gradients are exact rationals.             *)
(*                                                                              *)
(*  Gauss2 : 2-D Gaussian, mean m, covariance [[a,b],[b,d]] (integers, SPD),    *)
(*           optionally scaled by s = 2^e (x, m -> s x, s m; cov -> s^2 cov).   *)
(*           unnormalised  -Qf/2,  Qf = (d dx^2 - 2 b dx dy + a dy^2)/det       *)
(*           normalised    -Qf/2 - ln(2 pi) - (1/2) ln(det) - 2 e ln 2          *)
(*           gradient      -[d dx - b dy, a dy - b dx] / (det s)                *)
(*  Iso    : isotropic Gaussian proposal, std = 2^e per coordinate:             *)
(*           logq(from,to) = -|to-from|^2/(2 std^2) - (D/2) ln(2 pi)            *)
(*                           - D e ln 2     (symmetric in its arguments)        *)
(*           as a target:  -|x|^2 / (2 std^2)                                   *)
(*  Rosen2 : -[(A - x)^2 + B (y - x^2)^2]                                       *)
(*  RosenN : -sum_i [100 (x_{i+1} - x_i^2)^2 + (1 - x_i)^2]                     *)
EXTENDS Integers, Sequences

Pow2(e) == IF e >= 0 THEN [n |-> 2 ^ e, d |-> 1] ELSE [n |-> 1, d |-> 2 ^ (-e)]

\* ------------------------------ Gaussian ------------------------------
Det(c) == c.a * c.d - c.b * c.b
SPD(c) == c.a > 0 /\ Det(c) > 0
QuadNum(c, dx, dy) == c.d * dx * dx - 2 * c.b * dx * dy + c.a * dy * dy     \* Qf * det
\* magnitude of the individual terms (conditioning of the f32 evaluation)
QuadMag(c, dx, dy) ==
  LET abs(v) == IF v < 0 THEN -v ELSE v IN c.d * dx * dx + 2 * abs(c.b * dx * dy) + c.a * dy * dy
\* gradient of -Qf/2 w.r.t. the (unscaled) lattice point, times det
GradNumX(c, dx, dy) == -(c.d * dx - c.b * dy)
GradNumY(c, dx, dy) == -(c.a * dy - c.b * dx)

\* lemma: the gradient is the gradient (central differences are exact for quadratics):
\*   [-Q(x+1)/2] - [-Q(x-1)/2] = 2 * grad_x      (everything times det)
GaussGradLemma(c, dx, dy) ==
  /\ -(QuadNum(c, dx + 1, dy) - QuadNum(c, dx - 1, dy)) = 4 * GradNumX(c, dx, dy)
  /\ -(QuadNum(c, dx, dy + 1) - QuadNum(c, dx, dy - 1)) = 4 * GradNumY(c, dx, dy)
GaussSymmetric(c, dx, dy) == QuadNum(c, dx, dy) = QuadNum(c, -dx, -dy)
GaussPositive(c, dx, dy) == SPD(c) => (QuadNum(c, dx, dy) >= 0 /\ (QuadNum(c, dx, dy) = 0 <=> (dx = 0 /\ dy = 0)))

\* ------------------------------ isotropic ------------------------------
RECURSIVE SumSqDiff(_, _, _)
SumSqDiff(f, t, k) == IF k = 0 THEN 0 ELSE (t[k] - f[k]) * (t[k] - f[k]) + SumSqDiff(f, t, k - 1)
IsoSymmetric(f, t) == SumSqDiff(f, t, Len(f)) = SumSqDiff(t, f, Len(f))

\* ------------------------------ Rosenbrock ------------------------------
Rosen2(A, B, x, y) == -((A - x) * (A - x) + B * (y - x * x) * (y - x * x))
Rosen2Gx(A, B, x, y) == 2 * (A - x) + 4 * B * x * (y - x * x)
Rosen2Gy(A, B, x, y) == -2 * B * (y - x * x)
\* exact 5-point stencil for polynomials of degree <= 4: 12 f'(x) = 8 (f(x+1)-f(x-1)) - (f(x+2)-f(x-2))
Rosen2GradLemma(A, B, x, y) ==
  /\ 12 * Rosen2Gx(A, B, x, y) =
       8 * (Rosen2(A, B, x + 1, y) - Rosen2(A, B, x - 1, y)) - (Rosen2(A, B, x + 2, y) - Rosen2(A, B, x - 2, y))
  /\ 12 * Rosen2Gy(A, B, x, y) =
       8 * (Rosen2(A, B, x, y + 1) - Rosen2(A, B, x, y - 1)) - (Rosen2(A, B, x, y + 2) - Rosen2(A, B, x, y - 2))

RECURSIVE RosenNSum(_, _)
RosenNSum(x, i) ==
  IF i = 0 THEN 0
  ELSE 100 * (x[i + 1] - x[i] * x[i]) * (x[i + 1] - x[i] * x[i]) + (1 - x[i]) * (1 - x[i]) + RosenNSum(x, i - 1)
RosenN(x) == -RosenNSum(x, Len(x) - 1)
\* gradient component j of RosenN
RosenNG(x, j) ==
  LET n == Len(x)
      own == IF j < n THEN 400 * x[j] * (x[j + 1] - x[j] * x[j]) + 2 * (1 - x[j]) ELSE 0
      prev == IF j > 1 THEN -200 * (x[j] - x[j - 1] * x[j - 1]) ELSE 0
  IN own + prev
Bump(x, j, h) == [x EXCEPT ![j] = x[j] + h]
RosenNGradLemma(x) == \A j \in 1..Len(x) :
  12 * RosenNG(x, j) = 8 * (RosenN(Bump(x, j, 1)) - RosenN(Bump(x, j, -1))) - (RosenN(Bump(x, j, 2)) - RosenN(Bump(x, j, -2)))
=============================================================================
