-------------------------------- MODULE Seeds --------------------------------
(* Who owns which random stream (C07 reproducibility, C08 distinct streams).     *)
(*                                                                              *)
(* A generator is identified by how it was created:  <<"seed", v>> (seeded with  *)
(* the 64-bit value v; arithmetic is modulo W, a small stand-in for 2^64),       *)
(* <<"os", k>> (seeded from the operating system: a fresh identity k) or         *)
(* <<"global">> (burn's process-wide generator, shared by everything in the      *)
(* process).  A draw is the token <<generator, position>>.  Two samplers run      *)
(* concurrently; every chain step is one action, so TLC explores every           *)
(* interleaving of chain steps over the thread pool.                             *)
(*                                                                              *)
(* Policies (constants) select between the REQUIRED behaviour and the behaviour  *)
(* of the pinned tree, which serves as negative control:                         *)
(*   Derive    "wrapping" | "checked"   per-chain seed arithmetic                *)
(*             (checked = overflow-checking builds: panics when it wraps)        *)
(*   PropSeed  "perchain" | "clone"     MH proposals: re-seeded per chain, or    *)
(*             one proposal (with its generator state) cloned into every chain   *)
(*   HmcDraws  "own" | "global"         HMC momenta/uniforms from the sampler's  *)
(*             own seeded generator, or from the process-wide one                *)
EXTENDS Integers, Sequences, FiniteSets

CONSTANTS W, MaxChains, Steps, Derive, PropSeed, HmcDraws
Samplers == {1, 2}
Kinds == {"MH", "Gibbs", "HMC", "NUTS"}

VARIABLES kind, n, sigma,   \* per sampler: kind, number of chains, seed
          acc, prop,        \* per sampler, per chain: acceptance / proposal generator ids
          done,             \* per sampler, per chain: steps made
          out,              \* per sampler, per chain: sequence of draw tokens consumed
          gpos,             \* position of the global generator
          fresh,            \* next unused "os" identity
          phase,            \* per sampler: "new" | "built" | "seeded" | "panicked"
          used              \* per sampler: positions already consumed of each own generator
vars == <<kind, n, sigma, acc, prop, done, out, gpos, fresh, phase, used>>

Offset(k) == CASE k = "MH" -> 1 [] k = "Gibbs" -> 0 [] k = "NUTS" -> 1 [] k = "HMC" -> 0
NChainGens(k, nn) == IF k = "HMC" THEN 1 ELSE nn       \* HMC: one generator for the whole batch
ChainSeed(k, s, i) == (s + Offset(k) + (IF k = "HMC" THEN 0 ELSE i - 1)) % W
Wraps(k, s, nn) == \E i \in 1..NChainGens(k, nn) : s + Offset(k) + (IF k = "HMC" THEN 0 ELSE i - 1) >= W
PropOf(k, s, i) == (ChainSeed(k, s, i) + W \div 2) % W    \* proposal seed: acceptance seed + 2^63

Init ==
  /\ kind \in [Samplers -> Kinds] /\ n \in [Samplers -> 1..MaxChains] /\ sigma \in [Samplers -> 0..(W - 1)]
  /\ acc = [s \in Samplers |-> <<>>] /\ prop = [s \in Samplers |-> <<>>]
  /\ done = [s \in Samplers |-> <<>>] /\ out = [s \in Samplers |-> <<>>]
  /\ gpos = 0 /\ fresh = 0 /\ phase = [s \in Samplers |-> "new"]
  /\ used = [s \in Samplers |-> <<>>]

\* construction: OS-seeded generators everywhere; MH proposals per policy
Construct(s) ==
  /\ phase[s] = "new"
  /\ LET g == NChainGens(kind[s], n[s]) IN
     /\ acc' = [acc EXCEPT ![s] = [i \in 1..g |-> <<"os", fresh + i>>]]
     /\ prop' = [prop EXCEPT ![s] =
          IF kind[s] # "MH" THEN <<>>
          ELSE IF PropSeed = "clone" THEN [i \in 1..g |-> <<"os", fresh + g + 1>>]
          ELSE [i \in 1..g |-> <<"os", fresh + g + i>>]]
     /\ fresh' = fresh + 2 * g + 1
     /\ done' = [done EXCEPT ![s] = [i \in 1..g |-> 0]]
     /\ out' = [out EXCEPT ![s] = [i \in 1..g |-> <<>>]]
     /\ used' = [used EXCEPT ![s] = [i \in 1..g |-> 0]]
  /\ phase' = [phase EXCEPT ![s] = "built"]
  /\ UNCHANGED <<kind, n, sigma, gpos>>

\* explicit seeding (MH::seed, Gibbs/HMC/NUTS::set_seed)
SeedIt(s) ==
  /\ phase[s] = "built"
  /\ IF Derive = "checked" /\ Wraps(kind[s], sigma[s], n[s])
     THEN /\ phase' = [phase EXCEPT ![s] = "panicked"] /\ UNCHANGED <<acc, prop>>
     ELSE /\ phase' = [phase EXCEPT ![s] = "seeded"]
          /\ acc' = [acc EXCEPT ![s] = [i \in DOMAIN acc[s] |-> <<"seed", ChainSeed(kind[s], sigma[s], i)>>]]
          /\ prop' = [prop EXCEPT ![s] =
               IF kind[s] = "MH" /\ PropSeed = "perchain"
               THEN [i \in DOMAIN prop[s] |-> <<"seed", PropOf(kind[s], sigma[s], i)>>]
               ELSE prop[s]]
  /\ UNCHANGED <<kind, n, sigma, done, out, gpos, fresh, used>>

\* one transition of chain c of sampler s (any thread, any time): consumes its draw signature
ChainStep(s, c) ==
  /\ phase[s] = "seeded" /\ c \in DOMAIN done[s] /\ done[s][c] < Steps
  /\ done' = [done EXCEPT ![s][c] = done[s][c] + 1]
  /\ IF kind[s] = "HMC" /\ HmcDraws = "global"
     THEN /\ out' = [out EXCEPT ![s][c] = out[s][c] \o << <<<<"global">>, gpos>>, <<<<"global">>, gpos + 1>> >>]
          /\ gpos' = gpos + 2 /\ used' = used
     ELSE /\ out' = [out EXCEPT ![s][c] = out[s][c] \o
               (IF kind[s] = "MH" THEN << <<prop[s][c], used[s][c]>>, <<acc[s][c], used[s][c]>> >>
                ELSE IF kind[s] = "Gibbs" THEN <<>>          \* the library draws nothing itself
                ELSE << <<acc[s][c], 2 * used[s][c]>>, <<acc[s][c], 2 * used[s][c] + 1>> >>)]
          /\ used' = [used EXCEPT ![s][c] = used[s][c] + 1] /\ gpos' = gpos
  /\ UNCHANGED <<kind, n, sigma, acc, prop, fresh, phase>>

Next == \E s \in Samplers : Construct(s) \/ SeedIt(s) \/ (\E c \in 1..MaxChains : ChainStep(s, c))
Spec == Init /\ [][Next]_vars

Finished(s) == phase[s] = "seeded" /\ \A c \in DOMAIN done[s] : done[s][c] = Steps

(* ------------------------------- C07 ------------------------------------- *)
\* the output of a finished seeded sampler is the closed form determined by (kind, n, seed) alone:
\* every interleaving, whatever the other sampler does
Closed(k, nn, sg) ==
  [c \in 1..NChainGens(k, nn) |->
     IF k = "Gibbs" THEN <<>>
     ELSE IF k = "MH"
       THEN [j \in 1..(2 * Steps) |-> IF j % 2 = 1 THEN << <<"seed", PropOf(k, sg, c)>>, (j - 1) \div 2 >>
                                                   ELSE << <<"seed", ChainSeed(k, sg, c)>>, (j - 1) \div 2 >>]
       ELSE [j \in 1..(2 * Steps) |-> << <<"seed", ChainSeed(k, sg, c)>>, j - 1 >>]]
Reproducible == \A s \in Samplers : Finished(s) => out[s] = Closed(kind[s], n[s], sigma[s])
\* in particular two samplers with the same inputs agree, whatever the schedule
SameSeedSameOutput ==
  (Finished(1) /\ Finished(2) /\ kind[1] = kind[2] /\ n[1] = n[2] /\ sigma[1] = sigma[2]) => out[1] = out[2]
NoPanic == \A s \in Samplers : phase[s] # "panicked"
\* different seeds give different streams (for samplers that draw at all)
SeedSensitive ==
  (Finished(1) /\ Finished(2) /\ kind[1] = kind[2] /\ n[1] = n[2] /\ kind[1] # "Gibbs" /\ sigma[1] # sigma[2])
     => out[1] # out[2]

(* ------------------------------- C08 ------------------------------------- *)
\* no two chains share a stream, seeded or not; acceptance and proposal generators of a chain differ
DistinctStreams ==
  \A s \in Samplers : phase[s] \in {"built", "seeded"} =>
    /\ \A i, j \in DOMAIN acc[s] : i # j => acc[s][i] # acc[s][j]
    /\ \A i, j \in DOMAIN prop[s] : i # j => prop[s][i] # prop[s][j]
    /\ \A i \in DOMAIN prop[s], j \in DOMAIN acc[s] : prop[s][i] # acc[s][j]
=============================================================================
