CONSTANTS
  A = 2
  E = 1
  L = 2
  K = 1
  Dim = 2
  X0s <- X2
  P0s <- P2
  UClasses <- U
  MaxSteps = 1
SPECIFICATION Spec
INVARIANTS ExactLattice LeapfrogIsVerlet Reversible ZeroLeapfrogs SelectNoBlend Emit
CHECK_DEADLOCK FALSE
