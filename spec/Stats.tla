-------------------------------- MODULE Stats --------------------------------
(* Convergence diagnostics of src/stats.rs as exact rational functions of an   *)
(* integer sample array  a[c][t]  (c = chain 1..C, t = draw 1..N, one          *)
(* parameter): split R-hat and the Geyer effective sample size.                *)
(*                                                                            *)
(* Every quantity is kept as an integer numerator over a fixed positive        *)
(* denominator, so all comparisons are integer comparisons:                    *)
(*   n  half-chain length (N div 2; an odd middle draw is dropped)             *)
(*   m  number of half-chains (2 C)                                            *)
(*   S_i, Q_i   sum and sum of squares of half-chain i                         *)
(*   Wn = sum_i (n Q_i - S_i^2)            W  = Wn / (m n^2)     (1/n variance) *)
(*   Bn = sum_i (m S_i - T)^2, T = sum S_i B  = Bn / ((m-1) m^2 n)             *)
(*   Vn = (n-1)(m-1) m Wn + n Bn           var+ = Vn / ((m-1) m^2 n^3)         *)
(*   split R-hat^2 = var+/W = Vn / ((m-1) m n Wn)                              *)
(*   A_i(t) = sum_s (n x_s - S_i)(n x_{s+t} - S_i) = n^3 * autocovariance_i(t) *)
(*   rho_t = 1 - (W - mean_i acov_i(t))/var+ = Rn(t)/Vn,                       *)
(*           Rn(t) = Vn - (m-1) m (n Wn - sum_i A_i(t))                        *)
(*   Geyer: P_k = rho_2k + rho_2k+1, k = 0,1,..; stop at the first P_k <= 0;   *)
(*          clamp to the running minimum; tau = -1 + 2 sum P_k;                *)
(*          ESS = m n / tau = m n Vn / (2 Out - Vn)                            *)
(* The definition has no "brute force" / "FFT" distinction: whichever path the *)
(* implementation selects has to produce these numbers.                        *)
EXTENDS Integers, Sequences

Half(a) == Len(a[1]) \div 2
NHalves(a) == 2 * Len(a)
\* half-chain i of a: i in 1..C first halves, C+1..2C second halves
HalfSeq(a, i) ==
  LET C == Len(a)
      N == Len(a[1])
      n == N \div 2
  IN IF i <= C THEN SubSeq(a[i], 1, n) ELSE SubSeq(a[i - C], N - n + 1, N)

RECURSIVE SumTo(_, _)
SumTo(s, k) == IF k = 0 THEN 0 ELSE s[k] + SumTo(s, k - 1)
SeqSum(s) == SumTo(s, Len(s))
SumSq(s) == SeqSum([k \in 1..Len(s) |-> s[k] * s[k]])

(* All sufficient statistics of an array, computed once (TLC evaluates a LET    *)
(* definition at most once per context, an operator application every time).   *)
Summ(a) ==
  LET n == Half(a)
      m == NHalves(a)
      hs == [i \in 1..m |-> HalfSeq(a, i)]
      ss == [i \in 1..m |-> SeqSum(hs[i])]
      qs == [i \in 1..m |-> SumSq(hs[i])]
      wn == SeqSum([i \in 1..m |-> n * qs[i] - ss[i] * ss[i]])
      t == SeqSum(ss)
      bn == SeqSum([i \in 1..m |-> (m * ss[i] - t) * (m * ss[i] - t)])
  IN [n |-> n, m |-> m, hs |-> hs, ss |-> ss, wn |-> wn, bn |-> bn,
      vn |-> (n - 1) * (m - 1) * m * wn + n * bn]

Wn(a) == Summ(a).wn
Bn(a) == Summ(a).bn
Vn(a) == Summ(a).vn

\* split R-hat^2 = RhatNum / RhatDen  (defined iff Wn > 0)
RhatNum(a) == Summ(a).vn
RhatDen(a) == LET st == Summ(a) IN (st.m - 1) * st.m * st.n * st.wn
\* the same with the unbiased (1/(n-1)) within variance; the property does not fix the divisor
RhatNumU(a) == LET st == Summ(a) IN ((st.m - 1) * st.m * st.wn + st.bn) * (st.n - 1)
RhatDenU(a) == RhatDen(a)
Defined(a) == Half(a) >= 2 /\ Wn(a) > 0

\* n^3 * autocovariance of half-chain i at lag t
AA(st, i, t) ==
  LET h == st.hs[i]
      n == st.n
      s == st.ss[i]
  IN SeqSum([k \in 1..(n - t) |-> (n * h[k] - s) * (n * h[k + t] - s)])
SumAA(st, t) == SeqSum([i \in 1..st.m |-> AA(st, i, t)])
RnS(st, t) == st.vn - (st.m - 1) * st.m * (st.n * st.wn - SumAA(st, t))
PairS(st, k) == RnS(st, 2 * k) + RnS(st, 2 * k + 1)
Rn(a, t) == RnS(Summ(a), t)

Min2(x, y) == IF x < y THEN x ELSE y
\* Geyer's initial positive, monotone sequence: sum of clamped pairs k, k+1, .. (numerators)
RECURSIVE Geyer(_, _, _)
Geyer(st, k, runmin) ==
  IF 2 * k + 1 > st.n - 1 THEN 0
  ELSE LET p == PairS(st, k) IN
       IF p <= 0 THEN 0
       ELSE LET q == Min2(p, runmin) IN q + Geyer(st, k + 1, q)
OutS(st) == IF st.n >= 2 THEN Geyer(st, 0, PairS(st, 0)) ELSE 0
\* the same sequence as a list of clamped pair numerators (for long arrays whose SUM would exceed 31 bits)
RECURSIVE GeyerSeq(_, _, _)
GeyerSeq(st, k, runmin) ==
  IF 2 * k + 1 > st.n - 1 THEN <<>>
  ELSE LET p == PairS(st, k) IN
       IF p <= 0 THEN <<>>
       ELSE LET q == Min2(p, runmin) IN <<q>> \o GeyerSeq(st, k + 1, q)
Pairs(a) == LET st == Summ(a) IN IF st.n >= 2 THEN GeyerSeq(st, 0, PairS(st, 0)) ELSE <<>>

(* Rule U for the Geyer cut: the implementation works in f32, so a pair sum within *)
(* 2^-12 (relative to var+) of zero may legitimately be seen on either side of the *)
(* cut.  Fragile(a) marks arrays where that happens at a visited pair; conformance  *)
(* checks skip the ESS *value* of such arrays (never the R-hat value).               *)
Abs(x) == IF x < 0 THEN -x ELSE x
RECURSIVE GeyerFragile(_, _)
GeyerFragile(st, k) ==
  IF 2 * k + 1 > st.n - 1 THEN FALSE
  ELSE LET p == PairS(st, k) IN
       \/ Abs(p) <= st.vn \div 4096
       \/ (p > 0 /\ GeyerFragile(st, k + 1))
Fragile(a) == LET st == Summ(a) IN st.n >= 2 /\ GeyerFragile(st, 0)

\* ESS = EssNum / EssDen  (EssDen may be negative: tau < 0 for antithetic chains)
EssNum(a) == LET st == Summ(a) IN st.m * st.n * st.vn
EssDen(a) == LET st == Summ(a) IN 2 * OutS(st) - st.vn

(* ------------------------- transformations ------------------------------- *)
Affine(a, alpha, beta) == [c \in 1..Len(a) |-> [t \in 1..Len(a[c]) |-> alpha * a[c][t] + beta]]
Reverse(a) == [c \in 1..Len(a) |-> [t \in 1..Len(a[c]) |-> a[c][Len(a[c]) + 1 - t]]]
RotateChains(a) == [c \in 1..Len(a) |-> a[IF c = Len(a) THEN 1 ELSE c + 1]]
ShiftChain(a, c0, d) == [c \in 1..Len(a) |-> [t \in 1..Len(a[c]) |-> a[c][t] + (IF c = c0 THEN d ELSE 0)]]

SameRatio(n1, d1, n2, d2) == n1 * d2 = n2 * d1

(* ------------------------- theorems (checked by TLC) --------------------- *)
\* R-hat^2 >= (n-1)/n
LowerBound(a) == Defined(a) => Half(a) * RhatNum(a) >= (Half(a) - 1) * RhatDen(a)
RhatAffine(a) == Defined(a) =>
  /\ SameRatio(RhatNum(a), RhatDen(a), RhatNum(Affine(a, 1, 3)), RhatDen(Affine(a, 1, 3)))
  /\ SameRatio(RhatNum(a), RhatDen(a), RhatNum(Affine(a, -2, 1)), RhatDen(Affine(a, -2, 1)))
RhatPermute(a) == Defined(a) =>
  SameRatio(RhatNum(a), RhatDen(a), RhatNum(RotateChains(a)), RhatDen(RotateChains(a)))
\* moving one chain away increases R-hat^2 (strictly, once the shift dominates)
RhatSeparation(a) == (Defined(a) /\ Len(a) >= 2) =>
  LET b == ShiftChain(a, 1, 8) c == ShiftChain(a, 1, 16) IN
  RhatNum(c) * RhatDen(b) > RhatNum(b) * RhatDen(c)
EssAffine(a) == Defined(a) =>
  /\ SameRatio(EssNum(a), EssDen(a), EssNum(Affine(a, 1, 3)), EssDen(Affine(a, 1, 3)))
  /\ SameRatio(EssNum(a), EssDen(a), EssNum(Affine(a, -2, 1)), EssDen(Affine(a, -2, 1)))
EssPermute(a) == Defined(a) =>
  SameRatio(EssNum(a), EssDen(a), EssNum(RotateChains(a)), EssDen(RotateChains(a)))
EssReverse(a) == Defined(a) =>
  SameRatio(EssNum(a), EssDen(a), EssNum(Reverse(a)), EssDen(Reverse(a)))
Rho0IsOne(a) == Defined(a) => Rn(a, 0) = Vn(a)
=============================================================================
