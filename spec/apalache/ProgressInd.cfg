CONSTANTS
  N = 6
  MaxBars = 3
  Total = 4
INIT Init
NEXT Next
INVARIANT IndInv
