---------------------------- MODULE ProgressInd ----------------------------
(* Inductive-invariant proof (Apalache) of the reporter's bookkeeping in the      *)
(* progress-mode protocol, for chain counts far beyond what TLC enumerates         *)
(* (Progress.tla: N <= 5).  Abstraction of Progress.tla:                           *)
(*   - a channel is summarised by the highest n sent on it (the reporter keeps     *)
(*     only the latest message of a drain, and messages carry increasing n);       *)
(*   - the bars are a SET of chain ids (Progress.tla visits them left to right,    *)
(*     but the result of one bookkeeping pass does not depend on the order: the    *)
(*     first `avail` finished bars get the waiting chains, the others are removed); *)
(*   - the receiver crash is left out (it only removes reporter steps).            *)
(* Proved: IndInv is inductive, Init => IndInv, IndInv => Safety, where Safety is  *)
(* ExitOnlyWhenAllFinal /\ CountOnce /\ BarsFullWhileWaiting of Progress.tla.      *)
EXTENDS Integers, FiniteSets

CONSTANTS
  \* @type: Int;
  N,
  \* @type: Int;
  MaxBars,
  \* @type: Int;
  Total

VARIABLES
  \* @type: Int -> Int;
  wi,
  \* @type: Int -> Int;
  sent,
  \* @type: Int -> Int;
  recent,
  \* @type: Set(Int);
  shown,
  \* @type: Int;
  nextActive,
  \* @type: Int;
  nFinished,
  \* @type: Str;
  rpc,
  \* @type: Int;
  rk

Chains == 1..N
MinNB == IF N < MaxBars THEN N ELSE MaxBars

Init ==
  /\ wi = [c \in Chains |-> 0] /\ sent = [c \in Chains |-> 0] /\ recent = [c \in Chains |-> 0]
  /\ shown = {c \in Chains : c <= MinNB} /\ nextActive = MinNB + 1
  /\ nFinished = 0 /\ rpc = "drain" /\ rk = 1

WStep(c) ==
  /\ wi[c] < Total
  /\ wi' = [wi EXCEPT ![c] = wi[c] + 1]
  /\ \/ sent' = [sent EXCEPT ![c] = wi[c] + 1]                       \* periodic or final send
     \/ (wi[c] + 1 < Total /\ sent' = sent)                           \* no send in this iteration
  /\ UNCHANGED <<recent, shown, nextActive, nFinished, rpc, rk>>

RDrain ==
  /\ rpc = "drain"
  /\ recent' = [recent EXCEPT ![rk] = sent[rk]]
  /\ IF rk = N THEN rpc' = "book" /\ rk' = 1 ELSE rpc' = rpc /\ rk' = rk + 1
  /\ UNCHANGED <<wi, sent, shown, nextActive, nFinished>>

RBook ==
  /\ rpc = "book"
  /\ LET fin == {c \in shown : recent[c] = Total}
         k == Cardinality(fin)
         avail == N - nextActive + 1
         take == IF k < avail THEN k ELSE avail
     IN /\ shown' = (shown \ fin) \cup {c \in Chains : nextActive <= c /\ c < nextActive + take}
        /\ nextActive' = nextActive + take
        /\ nFinished' = nFinished + k
        /\ rpc' = IF nFinished + k >= N THEN "exit" ELSE "drain"
  /\ UNCHANGED <<wi, sent, recent, rk>>

Next == (\E c \in Chains : WStep(c)) \/ RDrain \/ RBook

(* ------------------------------------------------------------------------- *)
TypeOK ==
  /\ wi \in [Chains -> 0..Total] /\ sent \in [Chains -> 0..Total] /\ recent \in [Chains -> 0..Total]
  /\ shown \in SUBSET Chains
  /\ nextActive \in 1..(N + 1) /\ nFinished \in 0..N
  /\ rpc \in {"drain", "book", "exit"} /\ rk \in Chains

Retired == {c \in Chains : c < nextActive /\ c \notin shown}

IndInv ==
  /\ TypeOK
  /\ \A c \in Chains : recent[c] <= sent[c] /\ sent[c] <= wi[c] /\ (wi[c] = Total <=> sent[c] = Total)
  /\ \A c \in shown : c < nextActive
  /\ Cardinality(shown) <= MaxBars
  /\ nFinished = Cardinality(Retired)
  /\ \A c \in Retired : recent[c] = Total
  /\ (nextActive <= N => Cardinality(shown) = MaxBars)
  /\ (rpc = "exit" => nFinished >= N)
  /\ (rpc # "exit" => nFinished < N)
  /\ (rpc # "drain" => rk = 1)

\* ExitOnlyWhenAllFinal, CountOnce, and: no bar is dropped while a chain is still waiting for one
Safety ==
  /\ (rpc = "exit" => \A c \in Chains : recent[c] = Total)
  /\ nFinished <= N
  /\ (nextActive <= N => Cardinality(shown) = MaxBars)
=============================================================================
