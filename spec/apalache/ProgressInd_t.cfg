CONSTANTS
  N = 10
  MaxBars = 5
  Total = 8
INIT Init
NEXT Next
INVARIANT IndInv
