SPECIFICATION Spec
INVARIANT NeverZeroWeight
POSTCONDITION TraceAccepted
CHECK_DEADLOCK FALSE
