CONSTANTS
  W = 8
  MaxChains = 3
  Steps = 2
  Derive = "wrapping"
  PropSeed = "perchain"
  HmcDraws = "own"
SPECIFICATION Spec
INVARIANTS Reproducible SameSeedSameOutput NoPanic SeedSensitive DistinctStreams
CHECK_DEADLOCK FALSE
