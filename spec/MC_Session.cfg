CONSTANTS
  Kinds = {"MH", "Gibbs", "HMC", "NUTS"}
  MaxChains = 2
  Seeds = {7}
  MaxCollect = 4
  MaxDiscard = 1
  MaxCalls = 2
SPECIFICATION Spec
INVARIANTS RowsConsecutive Continuation ProgressEqualsRun ExportFaithful Emit
CONSTRAINT Allowed
CHECK_DEADLOCK FALSE
