CONSTANTS
  V = 3
  WVals = {1, 2, 3}
SPECIFICATION Spec
INVARIANT JointInvariant
CHECK_DEADLOCK FALSE
