---------------------------- MODULE Trace_BadState ----------------------------
(* C14 along recorded runs of MH and NUTS on targets with bounded support / NaN  *)
(* regions (HMC rows are validated by Trace_HMC).  One event per transition with *)
(* the log-density kinds of the state before and after, evaluated by the         *)
(* harness's OWN copy of the target.                                             *)
EXTENDS Integers, Sequences, Json, IOUtils, TLC, ExtReal
Rec == ndJsonDeserialize(IOEnv.TRACE)
VARIABLES l, good
Init == l = 1 /\ good = TRUE
Step ==
  /\ l <= Len(Rec) /\ Rec[l].e \in {"mh", "nuts"}
  /\ LET e == Rec[l] IN
     \* from a state of positive, non-NaN density (zero acceptance draws excepted) ...
     /\ (GoodDensity(e.lp_old) /\ ~e.uzero) =>
            \* ... the chain stays on one, at a point with finite coordinates
            (GoodDensity(e.lp_new) /\ e.coords_finite)
     \* a rejected candidate leaves the state bit for bit
     /\ ~e.moved => e.unchanged
     /\ good' = (good /\ GoodDensity(e.lp_new))
  /\ l' = l + 1
New == l <= Len(Rec) /\ Rec[l].e = "new" /\ good' = TRUE /\ l' = l + 1
Next == Step \/ New
Spec == Init /\ [][Next]_<<l, good>>
\* started good, every state of the run is good (unless a zero draw was excepted on the way)
AlwaysGood == good \/ (\E i \in 1..(l - 1) : Rec[i].e \in {"mh", "nuts"} /\ Rec[i].uzero)
TraceAccepted ==
  LET d == TLCGet("stats").diameter IN
  /\ PrintT(<<"TRACE_MATCHED", d - 1, Len(Rec)>>)
  /\ d - 1 = Len(Rec)
=============================================================================
