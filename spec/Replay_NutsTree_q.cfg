CONSTANTS
  MaxDepth = 1
  WrongWeight = FALSE
  TrackWeights = FALSE
  MaxExh = 1
  MaxJ = 3
  NSample = 400
INIT RInit
NEXT RNext
INVARIANT Emit
INVARIANT Shape
CHECK_DEADLOCK FALSE
