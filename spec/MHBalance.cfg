CONSTANTS
  N = 3
  WVals = {0, 1, 2, 4}
  D = 4
  K = 48
SPECIFICATION Spec
INVARIANTS DetailedBalance Stationary
CHECK_DEADLOCK FALSE
