CONSTANTS
  MaxDim = 4
  Vals = {0, 1, 2}
  Sweeps = 2
SPECIFICATION Spec
INVARIANTS CallOrder OnlyOwnCoordinate Emit
CHECK_DEADLOCK FALSE
