CONSTANTS
  C = 3
  P = 1
  L = 3
  Vals = {0, 2}
SPECIFICATION Spec
INVARIANTS Sane LowerBound Emit
CHECK_DEADLOCK FALSE
