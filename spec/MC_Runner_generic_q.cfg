CONSTANTS
  Chains = {1, 2, 3}
  Workers = 2
  Variant = "generic"
  NCalls = 2
  MaxCollect = 2
  MaxDiscard = 2
  Bug = "none"
SPECIFICATION Spec
INVARIANTS Exact NoExtraStep LeftAtLast RowIsChain Continuation 
CHECK_DEADLOCK FALSE
