CONSTANTS
  MaxA = 3
  MaxB = 4
  MaxD = 3
  Big <- BigT
SPECIFICATION Spec1
INVARIANTS OneRowPerCell ErrLeavesNothing Emit
CHECK_DEADLOCK FALSE
