CONSTANTS
  MaxDepth = 1
  WrongWeight = FALSE
  TrackWeights = FALSE
  MaxExh = 2
  MaxJ = 4
  NSample = 4000
INIT RInit
NEXT RNext
INVARIANT Emit
INVARIANT Shape
CHECK_DEADLOCK FALSE
