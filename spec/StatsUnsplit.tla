----------------------------- MODULE StatsUnsplit -----------------------------
(* ess_from_chainstats (src/stats.rs): the effective sample size computed from    *)
(* per-chain tracker summaries WITHOUT splitting the chains, and the maximum of    *)
(* the tracker R-hat over the parameters (MultiChainTracker::max_rhat).            *)
(* Beyond the listed properties: no property speaks about these two functions;    *)
(* the module records what the code computes, in the exact-rational style of       *)
(* Stats.tla, so that it can be replayed against the implementation.               *)
(*                                                                              *)
(* m chains of n draws, S_i, Q_i sum and sum of squares of chain i:                *)
(*   Wn = sum_i (n Q_i - S_i^2)     W = Wn / (m n (n-1))    mean UNBIASED variance *)
(*   Bn = sum_i (m S_i - T)^2       B = Bn / ((m-1) m^2 n)                         *)
(*   var+ = W (n-1)/n + B/n = VnU / ((m-1) m^2 n^2),  VnU = (m-1) m Wn + Bn        *)
(*   (classical, non-split) R-hat^2 = var+/W = (n-1) VnU / ((m-1) m n Wn)          *)
(*   rho_t = 1 - (W - mean_i acov_i(t)) / var+,  acov_i(t) = A_i(t)/n^3 (1/n form) *)
(*         = RnU(t) / DU,   DU = n (n-1) VnU,                                      *)
(*           RnU(t) = DU - (m-1) m (n^2 Wn - (n-1) sum_i A_i(t))                   *)
(*   note rho_0 = 1 - (W - biased W)/var+ < 1: the function mixes the unbiased     *)
(*   within variance with 1/n autocovariances -- that is what the code does.       *)
(*   Geyer as in Stats.tla;  ESS = m n / tau = m n DU / (2 OutU - DU).             *)
EXTENDS Stats

SummU(a) ==
  LET n == Len(a[1])
      m == Len(a)
      ss == [i \in 1..m |-> SeqSum(a[i])]
      qs == [i \in 1..m |-> SumSq(a[i])]
      wn == SeqSum([i \in 1..m |-> n * qs[i] - ss[i] * ss[i]])
      t == SeqSum(ss)
      bn == SeqSum([i \in 1..m |-> (m * ss[i] - t) * (m * ss[i] - t)])
  IN [n |-> n, m |-> m, hs |-> a, ss |-> ss, wn |-> wn, bn |-> bn, vn |-> (m - 1) * m * wn + bn]

DU(st) == st.n * (st.n - 1) * st.vn
RnU(st, t) == DU(st) - (st.m - 1) * st.m * (st.n * st.n * st.wn - (st.n - 1) * SumAA(st, t))
PairU(st, k) == RnU(st, 2 * k) + RnU(st, 2 * k + 1)
RECURSIVE GeyerU(_, _, _)
GeyerU(st, k, runmin) ==
  IF 2 * k + 1 > st.n - 1 THEN 0
  ELSE LET p == PairU(st, k) IN
       IF p <= 0 THEN 0
       ELSE LET q == Min2(p, runmin) IN q + GeyerU(st, k + 1, q)
OutU(st) == IF st.n >= 2 THEN GeyerU(st, 0, PairU(st, 0)) ELSE 0
RECURSIVE FragileU(_, _)
FragileU(st, k) ==
  IF 2 * k + 1 > st.n - 1 THEN FALSE
  ELSE LET p == PairU(st, k) IN
       \/ Abs(p) <= DU(st) \div 4096
       \/ (p > 0 /\ FragileU(st, k + 1))

DefinedU(a) == Len(a) >= 2 /\ Len(a[1]) >= 2 /\ SummU(a).wn > 0
EssUNum(a) == LET st == SummU(a) IN st.m * st.n * DU(st)
EssUDen(a) == LET st == SummU(a) IN 2 * OutU(st) - DU(st)
\* classical R-hat^2 of the trackers (what MultiChainTracker::rhat / collect_rhat report, Trackers.tla)
RhatUNum(a) == LET st == SummU(a) IN (st.n - 1) * st.vn
RhatUDen(a) == LET st == SummU(a) IN (st.m - 1) * st.m * st.n * st.wn

(* theorems checked by TLC on every array in the bounds.  Fractions are compared in lowest terms: cross-multiplying *)
(* these numerators leaves TLC's 32-bit integers.                                                                *)
RECURSIVE Gcd(_, _)
Gcd(x, y) == IF y = 0 THEN x ELSE Gcd(y, x % y)
Lowest(nn, dd) == LET g == Gcd(Abs(nn), Abs(dd))
                      sg == IF dd < 0 THEN -1 ELSE 1
                  IN IF g = 0 THEN <<0, 0>> ELSE <<sg * (nn \div g), sg * (dd \div g)>>
SameFraction(n1, d1, n2, d2) == Lowest(n1, d1) = Lowest(n2, d2)
EssUAffine(a) == DefinedU(a) =>
  LET b == Affine(a, -1, 3) IN SameFraction(EssUNum(a), EssUDen(a), EssUNum(b), EssUDen(b))
EssUPermute(a) == DefinedU(a) =>
  LET b == RotateChains(a) IN SameFraction(EssUNum(a), EssUDen(a), EssUNum(b), EssUDen(b))
\* lag-0 autocorrelation: rho_0 = 1 - W/(n var+)  (strictly below one)
Rho0U(a) == DefinedU(a) =>
  LET st == SummU(a) IN RnU(st, 0) = DU(st) - (st.m - 1) * st.m * st.n * st.wn
=============================================================================
