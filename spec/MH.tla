--------------------------------- MODULE MH ---------------------------------
(* One Metropolis-Hastings chain (src/metropolis_hastings.rs, MHMarkovChain::step). *)
(*                                                                            *)
(* The target's log-density table `lp` and the proposal's log-density table    *)
(* `lq` (lq[<<from, to>>] = log q(to | from)) are *variables fixed at Init*:   *)
(* the property quantifies over every user-supplied Target/Proposal, so the    *)
(* model checker enumerates them.  Values are IEEE kinds (ExtReal); finite     *)
(* values are integers in units of 1/1000.                                     *)
(*                                                                            *)
(* One step = one action: the proposal hands over a candidate y (any state:    *)
(* the proposal is adversarial, it may even propose moves to which it assigns  *)
(* probability zero), the chain draws one uniform u in [0,1) and moves to y    *)
(* iff  ln u < [lp(y) + lq(y->x)] - [lp(x) + lq(x->y)].                        *)
EXTENDS ExtReal, Integers, FiniteSets

CONSTANTS State,      \* finite set of state ids
          LogVals,    \* the log-values tables are filled from
          UClass      \* ids of acceptance draws, see LnU
VARIABLES lp, lq, x, last
vars == <<lp, lq, x, last>>

(* Acceptance draws, ordered like the reals they stand for:                    *)
(*   -1 : u = 0 exactly (ln u = -inf)                                          *)
(*    0 : u = largest representable value below 1 (ln u = -2^-53 or -2^-24)    *)
(*    j : u = 2^-j  (ln u = -0.693147.. j, i.e. -693 j in units of 1/1000,      *)
(*        never within 0.07 of an integer for j <= 5, so no finite tie exists)  *)
LnU(j) == IF j = -1 THEN NInf ELSE IF j = 0 THEN Fin(-1) ELSE Fin(-693 * j)

Ratio(cur, cand) ==
  Sub(Add(lp[cand], lq[<<cand, cur>>]), Add(lp[cur], lq[<<cur, cand>>]))

Accepts(cur, cand, j) == Gt(Ratio(cur, cand), LnU(j))

TypeOK ==
  /\ lp \in [State -> LogVals]
  /\ lq \in [State \X State -> LogVals]
  /\ x \in State

Step(y, j) ==
  /\ x' = IF Accepts(x, y, j) THEN y ELSE x
  /\ last' = [from |-> x, y |-> y, u |-> j, acc |-> Accepts(x, y, j)]
  /\ UNCHANGED <<lp, lq>>

Next == \E y \in State, j \in UClass : Step(y, j)

(* ------------------------------ properties ------------------------------ *)
(* C14 (MH part): started at a state of positive, non-NaN density the chain  *)
(* never sits on a state whose log-density is -inf or NaN -- for every table, *)
(* every candidate, every draw *including u = 0*.                             *)
NeverToBadState == GoodDensity(lp[x])

(* A NaN anywhere in the ratio rejects; an accepted move has a usable ratio. *)
NaNRejects == last.acc => ~IsNaN(Ratio(last.from, last.y))
AcceptedIsGood == last.acc => GoodDensity(lp[last.y])
(* With u = 0 (ln u = -inf) everything is accepted except ratio -inf / NaN.  *)
ZeroDrawRule ==
  last.u = -1 => (last.acc <=> Ratio(last.from, last.y).k \in {"fin", "pinf"})
(* A rejected step leaves the chain exactly where it was. *)
RejectKeeps == [][(~Accepts(x, last'.y, last'.u)) => x' = x]_vars
=============================================================================
