CONSTANTS
  C = 2
  P = 3
  Means = {0, 2}
  Vars = {1, 3}
  Ns = {3, 1000}
SPECIFICATION Spec
INVARIANTS LowerBound Emit
CHECK_DEADLOCK FALSE
