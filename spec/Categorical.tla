----------------------------- MODULE Categorical -----------------------------
(* Categorical distribution over indices 1..Len(w) with integer weights w       *)
(* (src/distributions.rs, Categorical::new / sample / logp).                    *)
(* probs_i = w_i / W,  cum_i = (w_1 + .. + w_i) / W.  Sampling with uniform     *)
(* variate r returns an index of POSITIVE probability whose interval            *)
(* [cum_{i-1}, cum_i] contains r (closed on both sides: either neighbour may be *)
(* returned at a threshold, an index of probability zero never).                *)
(* r is a rational rn/rd.                                                       *)
EXTENDS Integers, Sequences, FiniteSets

RECURSIVE SumTo(_, _)
SumTo(w, i) == IF i = 0 THEN 0 ELSE w[i] + SumTo(w, i - 1)
Total(w) == SumTo(w, Len(w))
Positive(w) == {i \in 1..Len(w) : w[i] > 0}

\* cum_{i-1} <= rn/rd <= cum_i
Allowed(w, rn, rd) ==
  {i \in Positive(w) : SumTo(w, i - 1) * rd <= rn * Total(w) /\ rn * Total(w) <= SumTo(w, i) * rd}

\* r infinitesimally below / above the threshold cum_i
LastPosUpTo(w, i) == {j \in Positive(w) : j <= i /\ \A k \in Positive(w) : k <= i => k <= j}
FirstPosAfter(w, i) == {j \in Positive(w) : j > i /\ \A k \in Positive(w) : k > i => k >= j}

\* theorems
NonEmpty(w, rn, rd) == (rn >= 0 /\ rn <= rd) => Allowed(w, rn, rd) # {}
\* "samples follow probs": over the midpoint grid (2k+1)/(2K) each index is hit K p_i +- 1 times
GridCount(w, K, i) == Cardinality({k \in 0..(K - 1) : i \in Allowed(w, 2 * k + 1, 2 * K)})
Quadrature(w, K) == \A i \in 1..Len(w) :
  LET c == GridCount(w, K, i) IN
  /\ (w[i] = 0 => c = 0)
  /\ c * Total(w) >= K * w[i] - Total(w) /\ c * Total(w) <= K * w[i] + Total(w)
=============================================================================
