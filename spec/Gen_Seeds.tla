------------------------------ MODULE Gen_Seeds ------------------------------
(* Scenario generator for C07.  A scenario = (kind, number of chains, seed,     *)
(* thread-pool size, what else runs concurrently, progress mode, fresh process  *)
(* or second run in the same process).  Seeds.tla proves that the output of a   *)
(* seeded sampler is Closed(kind, n, seed) -- independent of all the other      *)
(* scenario parameters and of the schedule; each scenario is printed with that   *)
(* closed form ("expect"): scenarios with equal expect must produce bit-equal    *)
(* output, scenarios of the same kind and size with different expect must not.   *)
EXTENDS Integers, Sequences, TLC, Json
CONSTANTS W, Steps
VARIABLES kind, n, sigma, acc, prop, done, out, gpos, fresh, phase, used, sc
S == INSTANCE Seeds WITH MaxChains <- 600, Derive <- "wrapping", PropSeed <- "perchain", HmcDraws <- "own"

\* residues 3 and 4 stand for 42 + 2^32 and 42 + 2^63: equal to 42 in their low 32 / 63 bits, different seeds nevertheless
SeedName(s) == CASE s = 0 -> "0" [] s = 1 -> "1" [] s = 2 -> "42"
                 [] s = 3 -> "4294967338" [] s = 4 -> "9223372036854775850"
                 [] s = W - 2 -> "18446744073709551614" [] s = W - 1 -> "18446744073709551615"
SeedClasses == {0, 1, 2, 3, 4, W - 2, W - 1}
\* n = 600 (HMC only): a batch large enough that an implementation might split the draw generation over threads
\* n = 40 (MH, Gibbs: the generic parallel runner): more chains than any pool has workers, so that chains queue
\*   and finish in an order that differs from their index order
Scenarios ==
  {x \in [kind : {"MH", "Gibbs", "HMC", "NUTS"}, n : {1, 2, 3, 5, 40, 600}, seed : SeedClasses,
           threads : {1, 2, 4, 16}, concurrent : {"none", "same", "hmc"}, progress : {FALSE, TRUE}, second : {FALSE, TRUE},
           pre : BOOLEAN] :
      /\ x.n <= 5 \/ (x.kind = "HMC" /\ x.n = 600 /\ x.concurrent = "none")
         \/ (x.kind \in {"MH", "Gibbs"} /\ x.n = 40 /\ x.concurrent = "none")
      \* pre: the sampler is used (an unseeded run) BEFORE it is seeded and put back on its start through its public fields;
      \* Closed(kind, n, seed) has no history argument -- seeding resets every stream the sampler owns, at any moment of its
      \* life.  (Not NUTS: its adaptation state is not a function of the seed.)
      /\ x.pre => (x.kind # "NUTS" /\ x.n <= 3 /\ x.threads = 1 /\ x.concurrent = "none" /\ ~x.second)}
Init == /\ sc = [kind |-> "none"]
        /\ kind = <<>> /\ n = <<>> /\ sigma = <<>> /\ acc = <<>> /\ prop = <<>> /\ done = <<>> /\ out = <<>>
        /\ gpos = 0 /\ fresh = 0 /\ phase = <<>> /\ used = <<>>
Next == /\ sc.kind = "none" /\ sc' \in Scenarios
        /\ UNCHANGED <<kind, n, sigma, acc, prop, done, out, gpos, fresh, phase, used>>
Emit == sc.kind # "none" =>
  PrintT(<<"REPLAY", ToJson([kind |-> sc.kind, n |-> sc.n, seed |-> SeedName(sc.seed), threads |-> sc.threads,
      concurrent |-> sc.concurrent, progress |-> sc.progress, second |-> sc.second, pre |-> sc.pre,
      expect |-> ToJson(S!Closed(sc.kind, sc.n, sc.seed))])>>)
=============================================================================
