SPECIFICATION Spec
INVARIANT AlwaysGood
POSTCONDITION TraceAccepted
CHECK_DEADLOCK FALSE
