------------------------------ MODULE NutsTree ------------------------------
(* One NUTS transition (Hoffman & Gelman, Algorithm 6) as coded in src/nuts.rs   *)
(* (NUTSChain::step + build_tree), over an ABSTRACT leapfrog trajectory: the      *)
(* leapfrog map is deterministic and reversible, so "the trajectory point at      *)
(* integer offset k from the current state" is well defined; offset 0 is the      *)
(* current state, positive offsets lie forward in time, negative ones backward.   *)
(*                                                                              *)
(* build_tree is an explicit stack machine, so that every leaf and every merge    *)
(* is one action.  What the target decides is left to an oracle that answers      *)
(* when asked -- for each new leaf: is it in the slice (logu < joint), has it     *)
(* not diverged (logu - 1000 < joint); for each completed pair of subtrees and    *)
(* each doubling: is there no U-turn between the two ends.  Random choices are    *)
(* nondeterministic, constrained only by what has positive probability:           *)
(*   the second half's candidate replaces the first's w.p. n2 / max(n1 + n2, 1)   *)
(*   the doubling's candidate becomes the state w.p. min(1, n'/n), and only if    *)
(*   the new subtree did not stop.                                                *)
(* In parallel the exact selection distribution of the candidate inside a         *)
(* subtree is propagated (weights pw over the common denominator pd), which       *)
(* turns "drawn uniformly among the slice-admissible points" into an invariant.   *)
EXTENDS Integers, Sequences, FiniteSets

CONSTANTS MaxDepth,      \* doublings explored (tree depths 0..MaxDepth-1)
          WrongWeight,   \* FALSE; TRUE = negative control: merge weight n2/(n1+n2+1)
          TrackWeights   \* TRUE: propagate the exact selection distribution (model checking only)

VARIABLES lo, hi,        \* extent of the trajectory built so far
          slice,         \* offsets visited and in the slice
          theta,         \* offset of the chain's state (0 until a candidate is accepted)
          n, s, j, v,    \* top-level variables of Algorithm 6
          stk,           \* stack of build_tree frames  [j, ph, first]
          ret,           \* result of the last completed build_tree call
          pc,            \* "dir" | "call" | "ret" | "done"
          nalpha,        \* leaves of the last doubling
          leavesThis     \* leaves created in the current doubling
vars == <<lo, hi, slice, theta, n, s, j, v, stk, ret, pc, nalpha, leavesThis>>

NoRet == [lo |-> 0, hi |-> 0, cand |-> 0, n |-> 0, s |-> TRUE, na |-> 0, pw |-> <<>>, pd |-> 1]
Init ==
  /\ lo = 0 /\ hi = 0 /\ slice = {} /\ theta = 0
  /\ n = 1 /\ s = TRUE /\ j = 0 /\ v = 1
  /\ stk = <<>> /\ ret = NoRet /\ pc = "dir" /\ nalpha = 0 /\ leavesThis = 0

Top == stk[Len(stk)]
Pop == SubSeq(stk, 1, Len(stk) - 1)
Push(f) == Append(stk, f)
Frame(jj) == [j |-> jj, ph |-> "first", first |-> NoRet]

\* while s: draw a direction, call build_tree(end_v, v, j)
ChooseDir(vv) ==
  /\ pc = "dir" /\ s
  /\ v' = vv /\ stk' = <<Frame(j)>> /\ pc' = "call" /\ leavesThis' = 0
  /\ UNCHANGED <<lo, hi, slice, theta, n, s, j, ret, nalpha>>

\* recursive call on a frame with j > 0: first descend into build_tree(j - 1)
Descend ==
  /\ pc = "call" /\ Top.j > 0
  /\ stk' = Push(Frame(Top.j - 1))
  /\ UNCHANGED <<lo, hi, slice, theta, n, s, j, v, ret, pc, nalpha, leavesThis>>

\* j = 0: one leapfrog step from the end in direction v; the oracle classifies the new point
Leaf(inSlice, ok) ==
  /\ pc = "call" /\ Top.j = 0
  /\ inSlice => ok                          \* logu < joint implies logu - 1000 < joint
  /\ LET off == IF v = 1 THEN hi + 1 ELSE lo - 1 IN
     /\ hi' = IF v = 1 THEN off ELSE hi
     /\ lo' = IF v = 1 THEN lo ELSE off
     /\ slice' = IF inSlice THEN slice \cup {off} ELSE slice
     /\ ret' = [lo |-> off, hi |-> off, cand |-> off, n |-> IF inSlice THEN 1 ELSE 0, s |-> ok, na |-> 1,
                pw |-> IF TrackWeights THEN <<[k |-> off, w |-> 1]>> ELSE <<>>, pd |-> 1]
  /\ stk' = Pop /\ pc' = "ret" /\ leavesThis' = leavesThis + 1
  /\ UNCHANGED <<theta, n, s, j, v, nalpha>>

\* a child returned to a frame that is in its first half
AfterFirst ==
  /\ pc = "ret" /\ Len(stk) > 0 /\ Top.ph = "first"
  /\ IF ret.s
     THEN \* go on with the second half, starting from the new end
          /\ stk' = Append(Append(Pop, [j |-> Top.j, ph |-> "second", first |-> ret]), Frame(Top.j - 1))
          /\ pc' = "call"
     ELSE \* the first half stopped: return it as it is
          /\ stk' = Pop /\ pc' = "ret"
  /\ UNCHANGED <<lo, hi, slice, theta, n, s, j, v, ret, nalpha, leavesThis>>

Scale(pw, f) == [i \in 1..Len(pw) |-> [k |-> pw[i].k, w |-> pw[i].w * f]]
\* the second half returned: merge
Merge(chooseSecond, noUTurn) ==
  /\ pc = "ret" /\ Len(stk) > 0 /\ Top.ph = "second"
  /\ LET a == Top.first
         b == ret
         den == IF WrongWeight THEN a.n + b.n + 1 ELSE (IF a.n + b.n = 0 THEN 1 ELSE a.n + b.n)
     IN /\ chooseSecond => b.n > 0                     \* probability b.n / den > 0
        /\ (~WrongWeight /\ a.n = 0 /\ b.n > 0) => chooseSecond      \* probability 1
        /\ ret' = [lo |-> IF a.lo < b.lo THEN a.lo ELSE b.lo, hi |-> IF a.hi > b.hi THEN a.hi ELSE b.hi,
                   cand |-> IF chooseSecond THEN b.cand ELSE a.cand,
                   n |-> a.n + b.n, s |-> a.s /\ b.s /\ noUTurn, na |-> a.na + b.na,
                   \* P(cand = k) = (1 - q) P1(k) + q P2(k),  q = b.n / den
                   pw |-> IF TrackWeights THEN Scale(a.pw, (den - b.n) * b.pd) \o Scale(b.pw, b.n * a.pd) ELSE <<>>,
                   pd |-> IF TrackWeights THEN den * a.pd * b.pd ELSE 1]
  /\ stk' = Pop
  /\ UNCHANGED <<lo, hi, slice, theta, n, s, j, v, pc, nalpha, leavesThis>>

\* build_tree returned to NUTSChain::step
DoubleEnd(accept, noUTurn) ==
  /\ pc = "ret" /\ Len(stk) = 0
  /\ accept => (ret.s /\ ret.n > 0)                    \* s' and u < min(1, n'/n), n' > 0
  /\ (ret.s /\ ret.n >= n) => accept                   \* min(1, n'/n) = 1
  /\ theta' = IF accept THEN ret.cand ELSE theta
  /\ n' = n + ret.n
  /\ s' = (ret.s /\ noUTurn)
  /\ j' = j + 1 /\ nalpha' = ret.na
  /\ pc' = IF (ret.s /\ noUTurn) /\ j + 1 < MaxDepth THEN "dir" ELSE "done"
  /\ UNCHANGED <<lo, hi, slice, v, stk, ret, leavesThis>>

Next == (\E vv \in {-1, 1} : ChooseDir(vv)) \/ Descend
        \/ (\E a, b \in BOOLEAN : Leaf(a, b)) \/ AfterFirst
        \/ (\E a, b \in BOOLEAN : Merge(a, b)) \/ (\E a, b \in BOOLEAN : DoubleEnd(a, b))
Spec == Init /\ [][Next]_vars

(* ------------------------------- properties ------------------------------- *)
\* P1: the state is the previous state or a slice-admissible point of the trajectory through it
NextStateAdmissible == theta = 0 \/ theta \in slice
\* P2: the state never comes from a subtree that stopped
NeverFromStopped == [][theta' # theta => (ret.s /\ ret.n > 0)]_vars
\* the trajectory is one contiguous piece through the current state, at most 2^j points
Extent ==
  /\ lo <= 0 /\ 0 <= hi /\ slice \subseteq lo..hi /\ 0 \notin slice
  /\ (pc \in {"dir", "done"} => hi - lo + 1 <= 2 ^ j)
\* n counts the current state plus the slice-admissible points visited
CountIsSlice == pc \in {"dir", "done"} => n = 1 + Cardinality(slice)
\* the acceptance statistic averages over exactly the leaves of the last doubling
AlphaIsLastDoubling == pc \in {"dir", "done"} /\ j > 0 => nalpha = leavesThis
\* a subtree that returned covers a contiguous range whose leaves are exactly its n_alpha leaves
SubtreeShape == pc = "ret" => (ret.hi - ret.lo + 1 = ret.na /\ ret.cand \in ret.lo..ret.hi
                                /\ ret.n = Cardinality(slice \cap (ret.lo..ret.hi)))
\* inside a subtree the candidate is uniform over its slice-admissible points:
\*   P(cand = k) = [k in slice] / n'   for every leaf k     (weights pw over denominator pd)
UniformWithinSubtree ==
  (pc = "ret" /\ ret.n > 0) =>
     \A i \in 1..Len(ret.pw) : ret.pw[i].w * ret.n = ret.pd * (IF ret.pw[i].k \in slice THEN 1 ELSE 0)
=============================================================================
