CONSTANTS
  K = 32
  Quick = FALSE
INIT Init
NEXT Next
INVARIANT Emit
CHECK_DEADLOCK FALSE
