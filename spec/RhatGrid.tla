------------------------------ MODULE RhatGrid ------------------------------
(* collect_rhat as a function of per-chain summaries (count n, mean, unbiased   *)
(* variance): the classical  R-hat^2 = ((n-1)/n W + B/n) / W  with              *)
(* W = mean of the variances,  B/n = sample variance of the chain means         *)
(* (divisor C-1), for any number of parameters.  Grid of integer summaries;     *)
(* one REPLAY line per grid point.                                              *)
EXTENDS Integers, Sequences, TLC, Json
CONSTANTS C, P, Means, Vars, Ns
VARIABLES means, vars, n, phase
Init == /\ means \in [1..C -> [1..P -> Means]]
        /\ vars \in [1..C -> [1..P -> Vars]]
        /\ n \in Ns /\ phase = 0
Next == phase = 0 /\ phase' = 1 /\ UNCHANGED <<means, vars, n>>
Spec == Init /\ [][Next]_<<means, vars, n, phase>>

RECURSIVE SumTo(_, _)
SumTo(f, j) == IF j = 0 THEN 0 ELSE f[j] + SumTo(f, j - 1)
SV(k) == SumTo([c \in 1..C |-> vars[c][k]], C)
TM(k) == SumTo([c \in 1..C |-> means[c][k]], C)
BB(k) == SumTo([c \in 1..C |-> (C * means[c][k] - TM(k)) * (C * means[c][k] - TM(k))], C)
RNum(k) == (n - 1) * C * (C - 1) * SV(k) + n * BB(k)
RDen(k) == n * C * (C - 1) * SV(k)

LowerBound == \A k \in 1..P : n * RNum(k) >= (n - 1) * RDen(k)
Emit == phase = 1 =>
  PrintT(<<"REPLAY", ToJson([means |-> means, vars |-> vars, n |-> n,
      rn |-> [k \in 1..P |-> RNum(k)], rd |-> [k \in 1..P |-> RDen(k)]])>>)
=============================================================================
