CONSTANTS
  N = 3
  WVals = {0, 1, 2}
  D = 3
  K = 12
SPECIFICATION Spec
INVARIANTS NegControl_NoHastings
CHECK_DEADLOCK FALSE
