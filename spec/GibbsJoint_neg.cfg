CONSTANTS
  V = 3
  WVals = {1, 2}
SPECIFICATION Spec
INVARIANT NegControl_StaleSnapshot
CHECK_DEADLOCK FALSE
