CONSTANTS
  SeedNames = {"a", "b"}
  MaxOps = 7
SPECIFICATION Spec
INVARIANTS SeedResetsAtAnyTime Emit
CHECK_DEADLOCK FALSE
