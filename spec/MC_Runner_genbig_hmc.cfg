CONSTANTS
  Chains = {1}
  Workers = 1
  Variant = "hmc"
  NCalls = 2
  MaxCollect = 3
  MaxDiscard = 3
  Bug = "none"
CONSTANT CallChoices <- BigHmc
SPECIFICATION Spec
INVARIANTS Exact NoExtraStep LeftAtLast RowIsChain Continuation Emit
CHECK_DEADLOCK FALSE
