------------------------------ MODULE MC_Session ------------------------------
EXTENDS Session, TLC, Json
\* progress mode is specified for n_collect >= 4 only
Allowed == \A k \in 1..Len(outputs) : outputs[k].progress => outputs[k].nc >= 4
Emit == (phase = "seeded" /\ Len(hist) >= 1) =>
  PrintT(<<"REPLAY", ToJson([kind |-> kind, n |-> n, seed |-> sigma,
     calls |-> [k \in 1..Len(outputs) |-> [nc |-> outputs[k].nc, nd |-> outputs[k].nd, progress |-> outputs[k].progress,
                                           rows |-> outputs[k].rows]],
     files |-> files])>>)
=============================================================================
