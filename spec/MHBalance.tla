------------------------------ MODULE MHBalance ------------------------------
(* Detailed balance / stationarity of the MH kernel of MH.tla on finite state *)
(* spaces, for *every* integer-weight target and every (asymmetric, possibly   *)
(* zero-entry) proposal table in the bounds.                                   *)
(*                                                                            *)
(* The kernel is derived from the step rule, not postulated: the acceptance    *)
(* draw ranges over the grid u_k = (k + 1/2)/K, k in 0..K-1, and a move x->y   *)
(* is accepted for exactly those k with  ln u_k < ln r,  r = w(y)q(x|y) /      *)
(* (w(x)q(y|x)),  i.e. (2k+1) w(x)q(y|x) < 2K w(y)q(x|y).  K is a multiple of  *)
(* every denominator that can occur, so the count is exactly K min(1, r).      *)
EXTENDS Integers, FiniteSets

CONSTANTS N,        \* states 0..N-1
          WVals,    \* weights
          D,        \* proposal rows are compositions of D
          K         \* resolution of the acceptance grid
S == 0..(N - 1)
VARIABLES w, q, phase
vars == <<w, q, phase>>

Rows == {r \in [S -> 0..D] : r[0] + r[1] + r[2] = D}

Init ==
  /\ w \in {f \in [S -> WVals] : \E s \in S : f[s] > 0}
  /\ q \in [S -> Rows]
  /\ phase = 0
Next == phase = 0 /\ phase' = 1 /\ UNCHANGED <<w, q>>
Spec == Init /\ [][Next]_vars

\* number of grid draws for which the step rule accepts x -> y
AccCount(a, b) ==
  IF w[a] * q[a][b] = 0
  THEN (IF w[b] * q[b][a] > 0 THEN K ELSE 0)   \* ratio +inf: always; NaN: never
  ELSE Cardinality({k \in 0..(K - 1) : (2 * k + 1) * (w[a] * q[a][b]) < 2 * K * (w[b] * q[b][a])})

\* probability flow a -> b, times D*K
Flow(a, b) == w[a] * q[a][b] * AccCount(a, b)

DetailedBalance == phase = 1 => \A a, b \in S : a # b => Flow(a, b) = Flow(b, a)

\* pi P = pi, times D*K:  sum_a Flow(a,b) + w(b) * (stay mass of b) = w(b) * D * K
Sum3(f) == f[0] + f[1] + f[2]
Stationary ==
  phase = 1 =>
    \A b \in S :
      LET inflow == Sum3([a \in S |-> IF a = b THEN 0 ELSE Flow(a, b)])
          outflow == Sum3([c \in S |-> IF c = b THEN 0 ELSE Flow(b, c)])
      IN inflow = outflow

(* Negative control: the Metropolis rule *without* the Hastings correction (the *)
(* log q terms dropped) must break detailed balance for asymmetric proposals;  *)
(* TLC has to find that, otherwise this module proves nothing.                 *)
AccCountNoQ(a, b) ==
  IF w[a] = 0 THEN (IF w[b] > 0 THEN K ELSE 0)
  ELSE Cardinality({k \in 0..(K - 1) : (2 * k + 1) * w[a] < 2 * K * w[b]})
NegControl_NoHastings ==
  phase = 1 => \A a, b \in S : a # b =>
     w[a] * q[a][b] * AccCountNoQ(a, b) = w[b] * q[b][a] * AccCountNoQ(b, a)
=============================================================================
