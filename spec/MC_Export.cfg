CONSTANTS
  MaxA = 2
  MaxB = 3
  MaxD = 2
  Big <- BigQ
SPECIFICATION Spec1
INVARIANTS OneRowPerCell ErrLeavesNothing Emit
CHECK_DEADLOCK FALSE
