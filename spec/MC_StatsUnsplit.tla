--------------------------- MODULE MC_StatsUnsplit ---------------------------
(* Exhaustive instance of StatsUnsplit: every C x N array over Vals (grown one   *)
(* draw per step); theorems at the leaves and one REPLAY line per array with the *)
(* expected unsplit ESS and classical R-hat^2 as exact fractions.                *)
EXTENDS StatsUnsplit, TLC, Json
CONSTANTS C, N, Vals
VARIABLE flat
Init == flat = <<>>
Next == Len(flat) < C * N /\ \E v \in Vals : flat' = Append(flat, v)
Spec == Init /\ [][Next]_flat
Arr == [c \in 1..C |-> SubSeq(flat, (c - 1) * N + 1, c * N)]
Full == Len(flat) = C * N
Theorems == Full => LET a == Arr IN EssUAffine(a) /\ EssUPermute(a) /\ Rho0U(a)
Emit == Full => LET a == Arr
                    st == SummU(a)
                IN PrintT(<<"REPLAY", ToJson([a |-> a, def |-> DefinedU(a), mn |-> st.m * st.n, du |-> DU(st), out |-> OutU(st),
                      frag |-> (st.n >= 2 /\ FragileU(st, 0)), rn |-> RhatUNum(a), rd |-> RhatUDen(a)])>>)
=============================================================================
