CONSTANTS
  N = 3
  WVals = {0, 1, 2}
  D = 3
  K = 12
SPECIFICATION Spec
INVARIANTS DetailedBalance Stationary
CHECK_DEADLOCK FALSE
