CONSTANTS
  MaxLen = 5
  MaxW = 3
  K = 64
SPECIFICATION Spec
INVARIANTS Theorems Emit
CHECK_DEADLOCK FALSE
