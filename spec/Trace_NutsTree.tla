---------------------------- MODULE Trace_NutsTree ----------------------------
(* Trace validation of real NUTS transitions against NutsTree.tla.  The events   *)
(* are the hook events of src/nuts.rs, projected by the harness (nutsrec.rs):    *)
(* every trajectory point is identified by the bit pattern of its logged         *)
(* (position, momentum) and given the offset of its predecessor +- 1; every leaf *)
(* is re-integrated with the harness's own leapfrog and gradient (lf_ok,         *)
(* joint_ok); U-turn products are recomputed from the logged end states (ut).    *)
(* The specification replays the stack machine: the oracle answers and random    *)
(* choices of NutsTree's actions are bound to the logged fields, and the logged  *)
(* counters (n, s, n_alpha, extents, candidate, state) must equal the machine's. *)
(* Descend / "go on with the second half" are not logged: they are silent steps. *)
EXTENDS NutsTree, Json, IOUtils, TLC
Rec == ndJsonDeserialize(IOEnv.TRACE)
VARIABLE l
tvars == <<vars, l>>
Margin == 2            \* quanta of 2^-16 on uniforms
SMargin == 65536       \* 1.0 in 2^-16 units around the divergence bound of 1000
Ev == Rec[l]
Is(e) == l <= Len(Rec) /\ Rec[l].e = e
Known(o) == o # -999999          \* the harness found the point on the trajectory
Same(o, x) == o = -888888 \/ o = x   \* -888888: coinciding points, not asserted

TInit == Init /\ l = 1

Begin ==
  /\ Is("begin") /\ pc \in {"dir", "done"} /\ (pc = "dir" => (l = 1 \/ ~s))
  /\ Ev.joint_ok
  /\ lo' = 0 /\ hi' = 0 /\ slice' = {} /\ theta' = 0 /\ n' = 1 /\ s' = TRUE /\ j' = 0 /\ v' = 1
  /\ stk' = <<>> /\ ret' = NoRet /\ pc' = "dir" /\ nalpha' = 0 /\ leavesThis' = 0
  /\ l' = l + 1

Dir ==
  /\ Is("dir") /\ Ev.j = j /\ Ev.n = n
  /\ ChooseDir(Ev.v)
  /\ l' = l + 1

\* silent: recursive descent
SilentDescend == Descend /\ UNCHANGED l
\* silent: the first half did not stop, go on with the second
SilentSecond == pc = "ret" /\ Len(stk) > 0 /\ Top.ph = "first" /\ ret.s /\ AfterFirst /\ UNCHANGED l

LeafEv ==
  /\ Is("leaf")
  /\ Leaf(Ev.n = 1, Ev.s = 1)
  /\ Ev.v = v
  /\ Known(Ev.off) /\ Ev.off = (IF v = 1 THEN hi + 1 ELSE lo - 1)      \* one step beyond the current end
  /\ Ev.lf_ok /\ Ev.joint_ok /\ Ev.alpha_ok                            \* it IS the leapfrog successor of that end
  /\ (Ev.n = 1) = (Ev.dj_sign = 1)                                     \* n' = [logu < joint]  (NaN: false)
  /\ (Ev.ds.k = "nan" \/ Ev.ds.k = "ninf") => Ev.s = 0                 \* s' = [logu - 1000 < joint]
  /\ (Ev.ds.k = "pinf") => Ev.s = 1
  /\ (Ev.ds.k = "fin" /\ Ev.ds.v > SMargin) => Ev.s = 1
  /\ (Ev.ds.k = "fin" /\ Ev.ds.v < -SMargin) => Ev.s = 0
  /\ l' = l + 1

UT(ut, b) == (ut = "yes" => b) /\ (ut = "no" => ~b)
MergeEv ==
  /\ Is("merge") /\ pc = "ret" /\ Len(stk) > 0 /\ Top.ph = "second" /\ Top.j = Ev.j
  /\ LET a == Top.first
         b == ret
         chose2 == Ev.cand = Ev.c2 /\ Ev.c2 # Ev.c1
         tot == IF Ev.n1 + Ev.n2 = 0 THEN 1 ELSE Ev.n1 + Ev.n2
         nout == (Ev.s1 = 1 /\ Ev.s2 = 1) /\ (Ev.s = 1)      \* short-circuit: the criterion is evaluated only then
     IN /\ Ev.n1 = a.n /\ Ev.n2 = b.n /\ (Ev.s1 = 1) = a.s /\ (Ev.s2 = 1) = b.s /\ Ev.na1 = a.na /\ Ev.na2 = b.na
        /\ Same(Ev.c1, a.cand) /\ Same(Ev.c2, b.cand)
        /\ Ev.cand \in {Ev.c1, Ev.c2, -888888}
        \* the second candidate wins iff u < n2 / max(n1 + n2, 1)
        /\ ((Ev.uq + 1 + Margin) * tot <= Ev.n2 * 65536) => (Ev.cand \in {Ev.c2, -888888})
        /\ ((Ev.uq - Margin) * tot >= Ev.n2 * 65536) => (Ev.cand \in {Ev.c1, -888888})
        /\ Merge(chose2, IF Ev.s1 = 1 /\ Ev.s2 = 1 THEN Ev.s = 1 ELSE TRUE)
        /\ (Ev.s1 = 1 /\ Ev.s2 = 1) => UT(Ev.ut, Ev.s = 1)   \* s' = s1 /\ s2 /\ no U-turn between the subtree's ends
        /\ Ev.n = a.n + b.n /\ Ev.na = a.na + b.na
        /\ (Ev.s = 1) = (a.s /\ b.s /\ nout)
        /\ Known(Ev.lo) /\ Known(Ev.hi)
        /\ Ev.lo = (IF a.lo < b.lo THEN a.lo ELSE b.lo) /\ Ev.hi = (IF a.hi > b.hi THEN a.hi ELSE b.hi)
  /\ l' = l + 1

\* a frame whose first half stopped returns that half unchanged
EarlyEv ==
  /\ Is("early") /\ pc = "ret" /\ Len(stk) > 0 /\ Top.ph = "first" /\ ~ret.s /\ Top.j = Ev.j
  /\ AfterFirst
  /\ Ev.n = ret.n /\ Ev.s = 0 /\ Ev.na = ret.na /\ Same(Ev.cand, ret.cand)
  /\ l' = l + 1

DoubleEv ==
  /\ Is("double") /\ pc = "ret" /\ Len(stk) = 0 /\ Ev.j = j
  /\ Ev.np = ret.n /\ (Ev.sp = 1) = ret.s /\ Ev.na = ret.na /\ Same(Ev.cand, ret.cand)
  /\ Ev.alpha_ok                                          \* alpha = sum over the leaves of this doubling
  /\ LET acc == Ev.accepted IN
     /\ DoubleEnd(acc, IF ret.s THEN Ev.s = 1 ELSE TRUE)
     \* accept iff s' and u < min(1, n'/n)
     /\ (ret.s /\ (ret.n >= n \/ (Ev.uq + 1 + Margin) * n <= ret.n * 65536)) => acc
     /\ (~ret.s \/ (ret.n < n /\ (Ev.uq - Margin) * n >= ret.n * 65536)) => ~acc
     /\ Same(Ev.theta, IF acc THEN ret.cand ELSE theta)
  /\ Ev.n = n + ret.n
  /\ (Ev.s = 1) => ret.s
  /\ ret.s => UT(Ev.ut, Ev.s = 1)                         \* s = s' /\ no U-turn between the trajectory's ends
  /\ Known(Ev.lo) /\ Known(Ev.hi) /\ Ev.lo = lo /\ Ev.hi = hi
  /\ l' = l + 1

EndEv ==
  /\ Is("end") /\ pc \in {"dir", "done"} /\ ~s
  /\ Ev.na = nalpha /\ Ev.pos_is_theta
  /\ Ev.moved = (theta # 0)
  /\ UNCHANGED vars /\ l' = l + 1

TNext == Begin \/ Dir \/ SilentDescend \/ SilentSecond \/ LeafEv \/ MergeEv \/ EarlyEv \/ DoubleEv \/ EndEv
TSpec == TInit /\ [][TNext]_tvars

ASSUME TLCSet(1, 0)
Progressed == TLCSet(1, IF TLCGet(1) < l THEN l ELSE TLCGet(1))
TraceAccepted ==
  /\ PrintT(<<"TRACE_MATCHED", TLCGet(1) - 1, Len(Rec)>>)
  /\ TLCGet(1) - 1 = Len(Rec)
=============================================================================
