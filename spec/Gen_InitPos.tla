----------------------------- MODULE Gen_InitPos -----------------------------
(* Replay cases for the initial-position helpers: (n, d, seed class) with the  *)
(* expected stream index of every entry (closed form proved in InitPos.tla).   *)
EXTENDS Integers, Sequences, TLC, Json
CONSTANTS Sizes
VARIABLE c
QSizes == {<<0,0>>, <<0,3>>, <<3,0>>, <<1,1>>, <<2,3>>, <<5,2>>, <<4,4>>, <<1,256>>, <<256,1>>, <<17,9>>, <<64,64>>, <<129,33>>, <<200,64>>, <<63,64>>}
TSizes == QSizes \cup {<<256,256>>, <<100,37>>, <<64,64>>, <<255,2>>, <<2,255>>, <<31,33>>, <<0,256>>, <<256,0>>}
SeedClasses == {"0", "1", "42", "18446744073709551614", "18446744073709551615", "123456789012345"}
Init == c = [n |-> -1]
Next == c.n = -1 /\ \E sz \in Sizes, s \in SeedClasses : c' = [n |-> sz[1], d |-> sz[2], seed |-> s]
Idx(nn, dd) == [i \in 1..nn |-> [j \in 1..dd |-> (i - 1) * dd + (j - 1)]]
Emit == c.n >= 0 => PrintT(<<"REPLAY", ToJson([n |-> c.n, d |-> c.d, seed |-> c.seed, idx |-> Idx(c.n, c.d)])>>)
=============================================================================
