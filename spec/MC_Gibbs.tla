------------------------------ MODULE MC_Gibbs ------------------------------
EXTENDS Gibbs, TLC, Json
CONSTANTS MaxDim, Vals, Sweeps
VARIABLES done, script,  \* sweeps completed; values returned so far (for replay)
          assigns        \* sweep counts after which the user assigned `current_state` := <<7, ..., 7>>

Init == /\ \E d \in 1..MaxDim : GInit([i \in 1..d |-> 9])
        /\ done = 0 /\ script = <<>> /\ assigns = <<>>
Next == \/ /\ done < Sweeps
           /\ \E r \in Vals : Refresh(r) /\ script' = Append(script, r)
           /\ UNCHANGED <<done, assigns>>
        \/ /\ done < Sweeps /\ EndStep /\ done' = done + 1 /\ UNCHANGED <<script, assigns>>
        \/ /\ done >= 1 /\ done < Sweeps
           /\ (IF assigns = <<>> THEN TRUE ELSE assigns[Len(assigns)] # done)
           /\ Assign([i \in 1..Len(state) |-> 7])
           /\ assigns' = Append(assigns, done) /\ UNCHANGED <<done, script>>
Spec == Init /\ [][Next]_<<gvars, done, script, assigns>>

(* replay: one JSON line per complete behaviour *)
Emit == (done = Sweeps) =>
  PrintT(<<"REPLAY", ToJson([dim |-> Len(state), sweeps |-> Sweeps, script |-> script, assigns |-> assigns, final |-> state])>>)
=============================================================================
