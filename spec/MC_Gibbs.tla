------------------------------ MODULE MC_Gibbs ------------------------------
EXTENDS Gibbs, TLC, Json
CONSTANTS MaxDim, Vals, Sweeps
VARIABLES done, script   \* sweeps completed; values returned so far (for replay)

Init == /\ \E d \in 1..MaxDim : GInit([i \in 1..d |-> 9])
        /\ done = 0 /\ script = <<>>
Next == \/ /\ done < Sweeps
           /\ \E r \in Vals : Refresh(r) /\ script' = Append(script, r)
           /\ UNCHANGED done
        \/ /\ done < Sweeps /\ EndStep /\ done' = done + 1 /\ UNCHANGED script
Spec == Init /\ [][Next]_<<gvars, done, script>>

(* replay: one JSON line per complete behaviour *)
Emit == (done = Sweeps) =>
  PrintT(<<"REPLAY", ToJson([dim |-> Len(state), sweeps |-> Sweeps, script |-> script, final |-> state])>>)
=============================================================================
