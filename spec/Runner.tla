------------------------------- MODULE Runner -------------------------------
(* run(n_collect, n_discard): src/core.rs run_chain + ChainRunner::run (rayon),  *)
(* src/hmc.rs HMC::run, src/nuts.rs NUTSChain::run / NUTS::run.                  *)
(*                                                                              *)
(* Abstraction: the state of chain c is the NUMBER OF TRANSITIONS it has made    *)
(* since the sampler was built (steps[c]); "storing the state" stores that       *)
(* number.  A worker thread picks any chain not yet started in this call and     *)
(* runs its loop to completion; at most Workers chains are in flight.  One       *)
(* action = one loop iteration of one chain (the chains share no state, so a     *)
(* finer grain adds no behaviour).                                               *)
(*                                                                              *)
(* Variants (the loops as coded):                                                *)
(*  "generic": for i in 0..total { step; if i >= n_discard { out[i-n_discard] } }*)
(*  "hmc"    : the same loop shape, but ONE process advances all rows at once    *)
(*             (discard loop, then collect loop) -- modelled as one chain whose  *)
(*             row is the batch; Workers is irrelevant                           *)
(*  "nuts"   : out[0] := current state; for m in 1..total-1 { step;             *)
(*             if m >= n_discard { out[m-n_discard] } }                          *)
EXTENDS Integers, Sequences, FiniteSets

CONSTANTS Chains,      \* set of chain ids
          Workers,     \* size of the thread pool
          Variant,     \* "generic" | "hmc" | "nuts"
          NCalls, MaxCollect, MaxDiscard,  \* bounds of the call histories explored
          Bug          \* "none"; "late_store" = negative control (store condition i > n_discard)
VARIABLES Calls,       \* sequence of <<n_collect, n_discard>>: consecutive run() calls (fixed at Init)
          call,        \* index of the current call (Len(Calls)+1 when all are done)
          pc,          \* pc[c] \in {"idle", "run", "done"} for the current call
          i,           \* loop index of chain c
          steps,       \* transitions made by chain c since construction
          base,        \* steps[c] when the current call started
          out,         \* out[c]: rows stored so far in this call (function 0..n_collect-1 -> Nat, -1 = unwritten)
          results      \* assembled outputs of completed calls
vars == <<Calls, call, pc, i, steps, base, out, results>>

NC == Calls[call][1]
ND == Calls[call][2]
Total == NC + ND
Active == call <= Len(Calls)
Blank == [c \in Chains |-> [k \in 0..(NC - 1) |-> -1]]

MinCollect == IF Variant = "nuts" THEN 1 ELSE 0
\* the (n_collect, n_discard) pairs a call may use; replay generators override it with a few LARGE pairs
CallChoices == (MinCollect..MaxCollect) \X (0..MaxDiscard)
Init ==
  /\ Calls \in [1..NCalls -> CallChoices]
  /\ call = 1
  /\ pc = [c \in Chains |-> "idle"] /\ i = [c \in Chains |-> 0]
  /\ steps = [c \in Chains |-> 0] /\ base = [c \in Chains |-> 0]
  /\ out = [c \in Chains |-> [k \in 0..(Calls[1][1] - 1) |-> -1]]
  /\ results = <<>>

InFlight == {c \in Chains : pc[c] = "run"}

Begin(c) ==
  /\ Active /\ pc[c] = "idle" /\ Cardinality(InFlight) < Workers
  /\ pc' = [pc EXCEPT ![c] = "run"]
  /\ IF Variant = "nuts"
     THEN /\ i' = [i EXCEPT ![c] = 1]                      \* init_chain: row 0 := current state
          /\ out' = [out EXCEPT ![c][0] = steps[c]]
     ELSE /\ i' = [i EXCEPT ![c] = 0] /\ out' = out
  /\ UNCHANGED <<Calls, call, steps, base, results>>

\* one loop iteration: step, then store if past the burn-in
Iter(c) ==
  /\ Active /\ pc[c] = "run" /\ i[c] < Total
  /\ steps' = [steps EXCEPT ![c] = steps[c] + 1]
  /\ out' = IF Bug = "late_store"
            THEN (IF i[c] > ND THEN [out EXCEPT ![c][i[c] - ND - 1] = steps[c] + 1] ELSE out)
            ELSE (IF i[c] >= ND THEN [out EXCEPT ![c][i[c] - ND] = steps[c] + 1] ELSE out)
  /\ i' = [i EXCEPT ![c] = i[c] + 1]
  /\ UNCHANGED <<Calls, call, pc, base, results>>

Finish(c) ==
  /\ Active /\ pc[c] = "run" /\ i[c] >= Total
  /\ pc' = [pc EXCEPT ![c] = "done"]
  /\ UNCHANGED <<Calls, call, i, steps, base, out, results>>

\* all chains done: stack the per-chain arrays BY CHAIN INDEX and start the next call
Assemble ==
  /\ Active /\ \A c \in Chains : pc[c] = "done"
  /\ results' = Append(results, out)
  /\ call' = call + 1
  /\ pc' = [c \in Chains |-> "idle"] /\ i' = [c \in Chains |-> 0]
  /\ base' = steps
  /\ out' = IF call + 1 <= Len(Calls)
            THEN [c \in Chains |-> [k \in 0..(Calls[call + 1][1] - 1) |-> -1]]
            ELSE [c \in Chains |-> <<>>]
  /\ UNCHANGED <<steps, Calls>>

Next == (\E c \in Chains : Begin(c) \/ Iter(c) \/ Finish(c)) \/ Assemble
Spec == Init /\ [][Next]_vars

(* ------------------------------- properties ------------------------------- *)
Offset == IF Variant = "nuts" THEN 0 ELSE 1
\* transitions a call performs per chain
StepsOfCall(k) == IF Variant = "nuts" THEN Calls[k][1] + Calls[k][2] - 1 ELSE Calls[k][1] + Calls[k][2]
RECURSIVE BaseOf(_)
BaseOf(k) == IF k = 1 THEN 0 ELSE BaseOf(k - 1) + StepsOfCall(k - 1)

\* every completed call returned exactly the states after n_discard + k + 1 (nuts: + k) transitions
Exact ==
  \A k \in 1..Len(results) : \A c \in Chains :
    /\ DOMAIN results[k][c] = 0..(Calls[k][1] - 1)
    /\ \A r \in 0..(Calls[k][1] - 1) : results[k][c][r] = BaseOf(k) + Calls[k][2] + r + Offset
\* no transition more than needed, and the sampler is left at the last returned state
NoExtraStep ==
  \A c \in Chains : (pc[c] = "done" /\ Active) => steps[c] = base[c] + StepsOfCall(call)
LeftAtLast ==
  \A k \in 1..Len(results) : \A c \in Chains :
    Calls[k][1] >= 1 => results[k][c][Calls[k][1] - 1] = BaseOf(k) + StepsOfCall(k)
\* a chain's row is written only with that chain's own counter: rows never get mixed up
RowIsChain == \A c \in Chains : \A r \in DOMAIN out[c] : out[c][r] = -1 \/ (out[c][r] > base[c] - 1 /\ out[c][r] <= steps[c])
\* two consecutive runs (a, d), (b, 0) return what one run (a + b, d) returns (generic / hmc)
Continuation ==
  \A k \in 2..Len(results) : (Variant # "nuts" /\ Calls[k][2] = 0 /\ Calls[k - 1][1] >= 1) =>
    \A c \in Chains : \A r \in 0..(Calls[k][1] - 1) :
      results[k][c][r] = results[k - 1][c][Calls[k - 1][1] - 1] + r + 1
=============================================================================
