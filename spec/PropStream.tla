----------------------------- MODULE PropStream -----------------------------
(* The random stream of a seedable proposal (distributions.rs, IsotropicGaussian: *)
(* `new`, `sample`, the builder-style `set_seed`, `Clone`).                        *)
(*                                                                              *)
(* State of one proposal object: the seed its generator was last seeded with      *)
(* ("os" = never seeded: operating-system entropy) and the number of sample()     *)
(* calls since.  "set_seed makes its draws reproducible" (C15) is the statement   *)
(* that the k-th sample() after set_seed(s) is a function of (s, k) alone --      *)
(* whatever the object did before: fresh, already sampled from, seeded before,    *)
(* cloned from a used object.  SetSeed therefore resets the position at ANY       *)
(* moment of the object's life, not only before its first draw; a clone carries   *)
(* the (seed, position) of its original and both continue independently.          *)
(* Every draw is annotated with the (seed, position) that determines it; the      *)
(* harness replays each history through real objects and compares every seeded    *)
(* draw, bit for bit, with draw number `position` of a FRESH object seeded with   *)
(* the same seed before its first draw (and the first draw after a seeding with   *)
(* from + std * z, z from SmallRng::seed_from_u64(seed) + StandardNormal).  How   *)
(* many generator outputs one sample() consumes is not specified (the code pulls  *)
(* one more normal than it uses).                                                 *)
EXTENDS Integers, Sequences, TLC, Json

CONSTANTS SeedNames,   \* model seeds, mapped to 64-bit seeds by the harness (incl. 0 and u64::MAX)
          MaxOps

VARIABLES obj,    \* obj[i] = [seed, pos] for the objects created so far (1 = the original, 2 = its clone if any)
          hist    \* operations so far, each draw annotated with the (seed, pos) that determines it
vars == <<obj, hist>>

Init == obj = <<[seed |-> "os", pos |-> 0]>> /\ hist = <<>>

Draw(i) ==
  /\ hist' = Append(hist, [op |-> "draw", o |-> i, seed |-> obj[i].seed, pos |-> obj[i].pos])
  /\ obj' = [obj EXCEPT ![i].pos = @ + 1]
SetSeed(i, s) ==
  /\ hist' = Append(hist, [op |-> "seed", o |-> i, seed |-> s, pos |-> 0])
  /\ obj' = [obj EXCEPT ![i] = [seed |-> s, pos |-> 0]]
CloneIt ==
  /\ Len(obj) = 1
  /\ hist' = Append(hist, [op |-> "clone", o |-> 1, seed |-> obj[1].seed, pos |-> obj[1].pos])
  /\ obj' = Append(obj, obj[1])

Next == /\ Len(hist) < MaxOps
        /\ \/ \E i \in 1..Len(obj) : Draw(i) \/ \E s \in SeedNames : SetSeed(i, s)
           \/ CloneIt
Spec == Init /\ [][Next]_vars

\* Declarative reading, computed from the history alone: the operations that belong to object i before index k are its
\* own and, for the clone, those of the original before the clone was taken; a draw is determined by the LAST seeding among
\* them (none: entropy) and by the number of draws since -- wherever in the object's life that seeding happened.
CloneAt == IF \E q \in 1..Len(hist) : hist[q].op = "clone" THEN CHOOSE q \in 1..Len(hist) : hist[q].op = "clone" ELSE 0
Before(i, k) == {q \in 1..(k - 1) : hist[q].op # "clone" /\ (hist[q].o = i \/ (i = 2 /\ hist[q].o = 1 /\ q < CloneAt))}
LastSeed(i, k) == LET sd == {q \in Before(i, k) : hist[q].op = "seed"} IN
                  IF sd = {} THEN 0 ELSE CHOOSE q \in sd : \A r \in sd : r <= q
Card(S) == IF S = {} THEN 0 ELSE LET RECURSIVE C(_) C(T) == IF T = {} THEN 0 ELSE LET x == CHOOSE x \in T : TRUE IN 1 + C(T \ {x}) IN C(S)
SeedResetsAtAnyTime ==
  \A k \in 1..Len(hist) : hist[k].op = "draw" =>
    LET i == hist[k].o  ls == LastSeed(i, k) IN
    /\ hist[k].seed = (IF ls = 0 THEN "os" ELSE hist[ls].seed)
    /\ hist[k].pos = Card({q \in Before(i, k) : q > ls /\ hist[q].op = "draw"})
Emit == Len(hist) = MaxOps => PrintT(<<"REPLAY", ToJson([kind |-> "stream", hist |-> hist])>>)
=============================================================================
