CONSTANTS
  MaxDepth = 3
  WrongWeight = TRUE
  TrackWeights = TRUE
SPECIFICATION Spec
INVARIANTS UniformWithinSubtree
CHECK_DEADLOCK FALSE
