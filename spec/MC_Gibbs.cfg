CONSTANTS
  MaxDim = 3
  Vals = {0, 1}
  Sweeps = 2
SPECIFICATION Spec
INVARIANTS CallOrder OnlyOwnCoordinate Emit
CHECK_DEADLOCK FALSE
