----------------------------- MODULE Trace_Runner -----------------------------
(* Trace validation of ChainRunner::run under the real rayon pool.  The         *)
(* counting chains of the harness log one event per step() (chain id, thread),  *)
(* in the order of a global mutex; "ret" carries the returned array (transition *)
(* counts).  Begin / Finish / Assemble are not observable and are composed into *)
(* the neighbouring observable step.                                            *)
EXTENDS Integers, Sequences, FiniteSets, Json, IOUtils, TLC
Rec == ndJsonDeserialize(IOEnv.TRACE)
VARIABLES l, n, workers, nc, nd, steps, base, i, running, tid, out
vars == <<l, n, workers, nc, nd, steps, base, i, running, tid, out>>
Init == l = 1 /\ n = 0 /\ workers = 0 /\ nc = 0 /\ nd = 0 /\ steps = <<>> /\ base = <<>> /\ i = <<>>
        /\ running = {} /\ tid = <<>> /\ out = <<>>
Total == nc + nd
New == /\ l <= Len(Rec) /\ Rec[l].e = "new"
       /\ n' = Rec[l].chains /\ workers' = Rec[l].workers
       /\ steps' = [c \in 1..Rec[l].chains |-> 0] /\ base' = [c \in 1..Rec[l].chains |-> 0]
       /\ i' = [c \in 1..Rec[l].chains |-> 0] /\ running' = {} /\ tid' = [c \in 1..Rec[l].chains |-> 0]
       /\ out' = <<>> /\ nc' = 0 /\ nd' = 0 /\ l' = l + 1
Call == /\ l <= Len(Rec) /\ Rec[l].e = "call"
        /\ running = {}                                  \* previous call fully finished
        /\ nc' = Rec[l].nc /\ nd' = Rec[l].nd
        /\ base' = steps /\ i' = [c \in 1..n |-> 0] /\ tid' = [c \in 1..n |-> 0]
        /\ out' = [c \in 1..n |-> [k \in 1..Rec[l].nc |-> -1]]
        /\ UNCHANGED <<n, workers, steps, running>> /\ l' = l + 1
\* one observed step() of chain c on thread t = (Begin(c) if first) ; Iter(c) ; (Finish(c) if last)
Step == /\ l <= Len(Rec) /\ Rec[l].e = "step"
        /\ LET c == Rec[l].c t == Rec[l].t IN
           /\ c \in 1..n /\ i[c] < Total
           /\ i[c] = 0 => Cardinality(running) < workers          \* a free worker picks it up
           /\ i[c] > 0 => (c \in running /\ tid[c] = t)           \* a chain never migrates mid-run
           /\ \A c2 \in running : c2 # c => tid[c2] # t           \* one thread runs one chain at a time
           /\ steps' = [steps EXCEPT ![c] = steps[c] + 1]
           /\ out' = IF i[c] >= nd THEN [out EXCEPT ![c][i[c] - nd + 1] = steps[c] + 1] ELSE out
           /\ i' = [i EXCEPT ![c] = i[c] + 1]
           /\ tid' = [tid EXCEPT ![c] = t]
           /\ running' = IF i[c] + 1 = Total THEN running \ {c} ELSE running \cup {c}
        /\ UNCHANGED <<n, workers, nc, nd, base>> /\ l' = l + 1
Ret == /\ l <= Len(Rec) /\ Rec[l].e = "ret"
       /\ running = {} /\ \A c \in 1..n : i[c] = Total          \* every chain made exactly Total steps
       /\ Rec[l].shape = <<n, nc, 2>>
       /\ Rec[l].out = out                                       \* stacked by chain index
       /\ \A c \in 1..n : \A k \in 1..nc : out[c][k] = base[c] + nd + k
       /\ UNCHANGED <<n, workers, nc, nd, steps, base, i, running, tid, out>> /\ l' = l + 1
Next == New \/ Call \/ Step \/ Ret
Spec == Init /\ [][Next]_vars
TraceAccepted ==
  LET d == TLCGet("stats").diameter IN
  /\ PrintT(<<"TRACE_MATCHED", d - 1, Len(Rec)>>)
  /\ d - 1 = Len(Rec)
=============================================================================
