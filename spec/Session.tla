------------------------------- MODULE Session -------------------------------
(* A whole user session with one sampler object, composing the semantics that    *)
(* Seeds.tla (who owns which stream), Runner.tla (which transitions a call       *)
(* makes and which states it returns), Progress.tla (progress mode returns the   *)
(* draws of run) and Export.tla (what a save call writes) establish separately:  *)
(*                                                                              *)
(*     Construct(kind, n) ; Seed(sigma) ; ( Run | RunProgress | Export )*        *)
(*                                                                              *)
(* Abstraction: the state of chain c after t transitions of a sampler seeded      *)
(* with sigma is the token <<kind, sigma, c, t>> -- by Seeds!Reproducible it is a *)
(* function of exactly these -- except for NUTS, whose every run() call draws a   *)
(* fresh momentum in init_chain and re-opens the adaptation window n_discard      *)
(* (a warm-up reaching beyond the transitions made so far is resumed), so that   *)
(* the token also carries, for every earlier call, how many transitions it made  *)
(* and its n_discard, and the n_discard of the current call   *)
(* (NUTS does not promise that two runs equal one longer run; MH, Gibbs and HMC   *)
(* do).  Neither n_collect nor the progress flag of the current call enters the   *)
(* token: they only decide which states are returned.                             *)
(* An output is the array of tokens a call returned; an export is the table a     *)
(* save call wrote (chain-major rows of the chosen output).                       *)
EXTENDS Integers, Sequences, FiniteSets

CONSTANTS Kinds, MaxChains, Seeds, MaxCollect, MaxDiscard, MaxCalls
VARIABLES kind, n, sigma, phase, steps, hist, outputs, files
vars == <<kind, n, sigma, phase, steps, hist, outputs, files>>

Init == /\ kind \in Kinds /\ n \in 1..MaxChains /\ sigma \in Seeds
        /\ phase = "new" /\ steps = 0 /\ hist = <<>> /\ outputs = <<>> /\ files = <<>>

Construct == phase = "new" /\ phase' = "built" /\ UNCHANGED <<kind, n, sigma, steps, hist, outputs, files>>
Seed == phase = "built" /\ phase' = "seeded" /\ UNCHANGED <<kind, n, sigma, steps, hist, outputs, files>>

\* the token of chain c after t transitions, given the calls made before the current one
\* (HMC draws the momenta of the whole batch from one generator: a row's trajectory depends on the batch size)
Tok(c, t, h) == IF kind = "NUTS" THEN <<kind, sigma, c, t, h>>
                ELSE IF kind = "HMC" THEN <<kind, sigma, c, t, n>> ELSE <<kind, sigma, c, t>>

\* rows a call returns and transitions it makes (Runner!Exact, Progress!DrawsExact)
Offset(progress) == IF kind = "NUTS" /\ ~progress THEN 0 ELSE 1
StepsOf(nc, nd, progress) == IF kind = "NUTS" /\ ~progress THEN nc + nd - 1 ELSE nc + nd
Rows(nc, nd, progress, h) ==
  [c \in 1..n |-> [k \in 1..nc |-> Tok(c, steps + nd + (k - 1) + Offset(progress), h)]]

Call(nc, nd, progress) ==
  /\ phase = "seeded" /\ Len(hist) < MaxCalls
  /\ (kind = "NUTS" => nc >= 1)
  /\ outputs' = Append(outputs, [nc |-> nc, nd |-> nd, progress |-> progress, start |-> steps, h |-> hist,
                                 rows |-> Rows(nc, nd, progress, Append(hist, <<nd>>))])
  /\ hist' = Append(hist, <<StepsOf(nc, nd, progress), nd>>)
  /\ steps' = steps + StepsOf(nc, nd, progress)
  /\ UNCHANGED <<kind, n, sigma, phase, files>>

\* save_csv / save_arrow / save_parquet of output k: one row per (chain, draw), chain-major
Export(k) ==
  /\ k \in 1..Len(outputs) /\ Len(files) < 2
  /\ files' = Append(files, [of |-> k,
        rows |-> [r \in 1..(n * outputs[k].nc) |->
                    LET c == ((r - 1) \div outputs[k].nc) + 1
                        j == ((r - 1) % outputs[k].nc) + 1
                    IN [chain |-> c - 1, obs |-> j - 1, tok |-> outputs[k].rows[c][j]]]])
  /\ UNCHANGED <<kind, n, sigma, phase, steps, hist, outputs>>

Next == Construct \/ Seed
        \/ (\E nc \in 0..MaxCollect, nd \in 0..MaxDiscard, p \in BOOLEAN : Call(nc, nd, p))
        \/ (\E k \in 1..MaxCalls : Export(k))
Spec == Init /\ [][Next]_vars

(* ------------------------------- properties ------------------------------- *)
\* every returned row belongs to its chain, rows of one output are consecutive states
RowsConsecutive == \A k \in 1..Len(outputs) : \A c \in 1..n : \A j \in 1..(outputs[k].nc - 1) :
  outputs[k].rows[c][j + 1][4] = outputs[k].rows[c][j][4] + 1 /\ outputs[k].rows[c][j][3] = c
\* MH / Gibbs / HMC: consecutive calls continue one trajectory -- the last row of a call and the first row
\* of the next call with n_discard = 0 are successive states (whether or not progress mode was used)
Continuation == \A k \in 2..Len(outputs) :
  (kind # "NUTS" /\ outputs[k].nd = 0 /\ outputs[k - 1].nc >= 1 /\ outputs[k].nc >= 1) =>
     \A c \in 1..n : outputs[k].rows[c][1][4] = outputs[k - 1].rows[c][outputs[k - 1].nc][4] + 1
\* progress mode returns what run returns from the same state (NUTS: shifted by one draw)
ProgressEqualsRun == \A k \in 1..Len(outputs) : \A c \in 1..n : \A j \in 1..outputs[k].nc :
  outputs[k].rows[c][j][4] = outputs[k].start + outputs[k].nd + (j - 1)
                               + (IF kind = "NUTS" /\ ~outputs[k].progress THEN 0 ELSE 1)
\* an export holds exactly the rows of the output it was made from, one per cell, correctly labelled
ExportFaithful == \A f \in 1..Len(files) :
  LET o == outputs[files[f].of] IN
  /\ Len(files[f].rows) = n * o.nc
  /\ \A r \in 1..Len(files[f].rows) :
        files[f].rows[r].tok = o.rows[files[f].rows[r].chain + 1][files[f].rows[r].obs + 1]
=============================================================================
