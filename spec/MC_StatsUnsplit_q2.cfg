CONSTANTS
  C = 3
  N = 4
  Vals = {0, 1, 2}
SPECIFICATION Spec
INVARIANTS Theorems Emit
CHECK_DEADLOCK FALSE
