------------------------------ MODULE MC_Stats ------------------------------
(* Exhaustive instance of Stats: every C x N array over Vals.  The array is    *)
(* grown one draw per step so that TLC's workers share the enumeration; at the *)
(* leaves the theorems are checked and one REPLAY line per array is printed    *)
(* (expected split R-hat^2 and ESS as exact fractions) for the harness.        *)
EXTENDS Stats, TLC, Json
CONSTANTS C, N, Vals, EmitReplay
VARIABLE flat
Init == flat = <<>>
Next == Len(flat) < C * N /\ \E v \in Vals : flat' = Append(flat, v)
Spec == Init /\ [][Next]_flat

Arr == [c \in 1..C |-> SubSeq(flat, (c - 1) * N + 1, c * N)]
Full == Len(flat) = C * N

Theorems ==
  Full => LET a == Arr IN
    /\ LowerBound(a) /\ RhatAffine(a) /\ RhatPermute(a) /\ RhatSeparation(a)
    /\ EssAffine(a) /\ EssPermute(a) /\ EssReverse(a) /\ Rho0IsOne(a)

Emit ==
  (Full /\ EmitReplay) => LET a == Arr IN
    PrintT(<<"REPLAY", ToJson([a |-> a, def |-> Defined(a), wn |-> Wn(a),
       rn |-> RhatNum(a), rd |-> RhatDen(a), rnu |-> RhatNumU(a),
       mn |-> NHalves(a) * Half(a), vn |-> Vn(a), out |-> OutS(Summ(a)), frag |-> Fragile(a)])>>)
=============================================================================
