CONSTANTS
  Covs <- TCovs
  Means <- TMeans
  Pts <- TPts
  Exps <- TExps
  IsoDims <- TIsoDims
  IsoExps <- TIsoExps
  RosenPts <- TRosenPts
  RosenNVals <- TRosenNVals
  RosenNDims <- TRosenNDims
SPECIFICATION Spec
INVARIANTS Lemmas Emit
CHECK_DEADLOCK FALSE
