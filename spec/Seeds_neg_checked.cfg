CONSTANTS
  W = 8
  MaxChains = 2
  Steps = 1
  Derive = "checked"
  PropSeed = "perchain"
  HmcDraws = "own"
SPECIFICATION Spec
INVARIANTS NoPanic
CHECK_DEADLOCK FALSE
