------------------------------- MODULE DualAvg -------------------------------
(* Step-size adaptation of a NUTS chain (src/nuts.rs: init_chain and the end of   *)
(* NUTSChain::step): Nesterov dual averaging during warm-up, frozen afterwards.   *)
(* All reals are kept in log space / fixed point, unit 2^-12:                     *)
(*    le = ln eps,  leb = ln eps_bar,  hb = H-bar,  mu,  a = alpha / n_alpha       *)
(* One transition with counter m (1-based, persisting across run() calls):        *)
(*    if m <= n_discard:   (Adapt)  k := k + 1  -- k counts the ADAPTING           *)
(*        transitions of the chain: it is the iteration index of the dual averaging *)
(*        hb'  = (1 - 1/(k + t0)) hb + (delta - a)/(k + t0)              t0 = 10     *)
(*        le'  = mu - sqrt(k)/gamma * hb'                              gamma = 0.05*)
(*        leb' = (1 - k^-kappa) leb + k^-kappa le'                     kappa = 0.75*)
(*    else:                (Freeze)   le' = leb,  leb' = leb,  hb' = hb            *)
(* run(n_collect, n_discard):  first call: eps0 from the doubling/halving          *)
(* heuristic (a power of two) and mu = ln(10 eps0), both fixed for the chain's     *)
(* life; every call: n_discard replaced; m, k, eps, eps_bar, H-bar kept.  A call   *)
(* whose warm-up reaches beyond the transitions made so far RESUMES the warm-up:   *)
(* it continues the same dual averaging (next k), it does not start another one.   *)
(* (The pinned code used m for k, moved H-bar on frozen transitions too and        *)
(* re-derived mu at every call: a resumed warm-up then produced step sizes 0, inf   *)
(* or 1e36 -- defect D14, repaired.)                                               *)
(* The irrational factors come from certified interval tables (DualAvgTables),    *)
(* so each relation is an INTERVAL the logged value has to fall into; Slack        *)
(* accounts for the quantisation of the logged inputs.                             *)
EXTENDS Integers, Sequences, DualAvgTables

T0 == 10
Ln10Lo == 9431          \* ln 10 = 2.302585...  in 2^-12 units
Ln10Hi == 9432
Ln2x1000 == 2839089     \* 1000 * ln 2 * 4096 = 2839088.9...

Abs(x) == IF x < 0 THEN -x ELSE x
Min2(x, y) == IF x < y THEN x ELSE y
Max2(x, y) == IF x > y THEN x ELSE y

\* hb' (m + t0) = hb (m + t0 - 1) + (delta - a)
HbarOk(m, hb, hb2, delta, a) ==
  Abs(hb2 * (m + T0) - hb * (m + T0 - 1) - (delta - a)) <= 3 * (m + T0) + 4

\* le' = mu - 20 sqrt(m) hb'   (S20 tables are in units of 1/16)
EpsOk(m, mu, hb2, le2) ==
  LET p1 == S20Lo[m] * hb2
      p2 == S20Hi[m] * hb2
      lo == mu - Max2(p1, p2) \div 16 - 1
      hi == mu - Min2(p1, p2) \div 16 + 1
      slack == (2 * S20Hi[m]) \div 16 + 4          \* hb' is known to +-2 units
  IN le2 >= lo - slack /\ le2 <= hi + slack

\* leb' = (1 - k) leb + k le',  k = m^-0.75  (K75 tables are in units of 2^-12)
EpsBarOk(m, leb, le2, leb2) ==
  LET c1 == (4096 - K75Hi[m]) * leb + K75Lo[m] * le2
      c2 == (4096 - K75Lo[m]) * leb + K75Hi[m] * le2
      c3 == (4096 - K75Hi[m]) * leb + K75Hi[m] * le2
      c4 == (4096 - K75Lo[m]) * leb + K75Lo[m] * le2
      lo == Min2(Min2(c1, c2), Min2(c3, c4))
      hi == Max2(Max2(c1, c2), Max2(c3, c4))
  IN leb2 * 4096 >= lo - 4 * 4096 /\ leb2 * 4096 <= hi + 4 * 4096

\* eps0 is a power of two: le = k ln 2
PowerOfTwo(le) == \E k \in -64..64 : Abs(1000 * le - k * Ln2x1000) <= 1000 * (3 + (Abs(k) \div 16))
MuOk(mu, le) == mu - le >= Ln10Lo - 3 /\ mu - le <= Ln10Hi + 3

(* ---- the start value eps0: Hoffman & Gelman's Algorithm 4 (doubling / halving heuristic) ----               *)
(* A(e) is the log acceptance probability of ONE leapfrog step of size e from the start point with the first    *)
(* momentum, an ExtReal record [k, v] in units of 2^-16.  A trial point whose density is undefined (NaN: `ln`   *)
(* or `sqrt` of a negative argument) or zero (-inf) is never accepted: its acceptance probability is 0.          *)
(* The heuristic starts at 1 and doubles while the acceptance is above 1/2, or halves while it is below 1/2     *)
(* (a = +1 / -1, decided at step size 1); its postcondition is that the acceptance CROSSES 1/2 between the      *)
(* returned eps0 and the candidate one doubling / halving earlier.                                              *)
Acc(x) == IF x.k = "nan" THEN [k |-> "ninf", v |-> 0] ELSE x
LnHalfFx16 == -45426
LnQuarterFx16 == -90852
AccAbove(x, t) == LET y == Acc(x) IN y.k = "pinf" \/ (y.k = "fin" /\ y.v > t)
AccBelow(x, t) == LET y == Acc(x) IN y.k = "ninf" \/ (y.k = "fin" /\ y.v < t)
\* went up: acceptance at eps0 is at most 1/2, and was still above 1/2 at eps0 / 2
CrossUp(aEps, aHalf, sl) == ~AccAbove(aEps, LnHalfFx16 + sl) /\ AccAbove(aHalf, LnHalfFx16 - sl)
\* went down: acceptance at eps0 is at least 1/2, and was still below 1/2 at 2 eps0.  (`skipped`: eps0 = 1/4 -- the
\* implementation goes from its measurement at 1 straight to 1/4, step size 1/2 is never evaluated: DESIGN 7)
CrossDown(aEps, aTwice, sl, skipped) == ~AccBelow(aEps, LnHalfFx16 - sl) /\ (AccBelow(aTwice, LnHalfFx16 + sl) \/ skipped)
StartValueOk(aOne, aEps, aHalf, aTwice, lnEps, sl) ==
  LET one == Acc(aOne)
      skipped == lnEps.k = "fin" /\ lnEps.v >= LnQuarterFx16 - 1 /\ lnEps.v <= LnQuarterFx16 + 1
  IN IF one.k = "pinf" \/ (one.k = "fin" /\ one.v > LnHalfFx16 + sl) THEN CrossUp(aEps, aHalf, sl)
     ELSE IF one.k = "fin" /\ one.v < LnHalfFx16 - sl THEN CrossDown(aEps, aTwice, sl, skipped)
     \* the unit step leaves the support (Algorithm 4 would halve; the implementation first looks for a finite trial
     \* point in its own way), or sits on the threshold within the arithmetic's slack: a crossing in either direction
     ELSE CrossUp(aEps, aHalf, sl) \/ CrossDown(aEps, aTwice, sl, skipped)
=============================================================================
