CONSTANTS
  W = 16
  Steps = 1
INIT Init
NEXT Next
INVARIANT Emit
CHECK_DEADLOCK FALSE
