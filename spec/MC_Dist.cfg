CONSTANTS
  Covs <- QCovs
  Means <- QMeans
  Pts <- QPts
  Exps <- QExps
  IsoDims <- QIsoDims
  IsoExps <- QIsoExps
  RosenPts <- QRosenPts
  RosenNVals <- QRosenNVals
  RosenNDims <- QRosenNDims
SPECIFICATION Spec
INVARIANTS Lemmas Emit
CHECK_DEADLOCK FALSE
