----------------------------- MODULE Gen_Progress -----------------------------
(* Replay cases for C10, enumerated by TLC:                                      *)
(*  schedule: for each of N chains the reporter iteration during which its final  *)
(*            message arrives (a completion schedule), with N > MaxBars so that   *)
(*            bars are recycled; Progress.tla proves Termination and DrawsExact   *)
(*            for every interleaving, so every schedule must return exact draws;  *)
(*  config:   sampler x element type/backend x chain count x (n_collect,n_discard);*)
(*  fault:    the statistics receiver dropped before / during / after a worker's  *)
(*            run (Progress!RCrash).                                              *)
EXTENDS Integers, Sequences, TLC, Json
CONSTANTS N, MaxIter
VARIABLE c
Kinds == {<<"MH", "f64">>, <<"MH", "f32">>, <<"MH", "i32">>, <<"Gibbs", "f64">>, <<"Gibbs", "f32">>, <<"Gibbs", "i32">>,
          <<"HMC", "f32/f32">>, <<"HMC", "f64/f64">>, <<"HMC", "f32/f64">>, <<"HMC", "f64/f32">>,
          <<"NUTS", "f32/f32">>, <<"NUTS", "f64/f64">>, <<"NUTS", "f32/f64">>, <<"NUTS", "f64/f32">>}
Sizes == {<<4, 0>>, <<4, 3>>, <<7, 1>>}
Init == c = [t |-> "none"]
Next == /\ c.t = "none"
        /\ \/ \E w \in [1..N -> 0..MaxIter], s \in {<<4, 0>>, <<4, 2>>} : c' = [t |-> "schedule", waits |-> w, nc |-> s[1], nd |-> s[2]]
           \* pre: the sampler has been used before (run(3, 2)) -- "from the same sampler state" includes its history
           \/ \E k \in Kinds, n \in {1, 2, 5, 6, 11, 48}, s \in Sizes, pre \in BOOLEAN :
                 c' = [t |-> "config", kind |-> k[1], ty |-> k[2], n |-> n, nc |-> s[1], nd |-> s[2], pre |-> pre]
           \* large runs: thousands of rows / burn-in transitions (beyond typical block and buffer thresholds)
           \/ \E k \in {<<"MH", "f64">>, <<"Gibbs", "i32">>}, s \in {<<1500, 1100>>, <<1025, 0>>} :
                 c' = [t |-> "config", kind |-> k[1], ty |-> k[2], n |-> 2, nc |-> s[1], nd |-> s[2], pre |-> FALSE]
           \/ \E k \in {<<"HMC", "f32/f32">>, <<"NUTS", "f64/f64">>} :
                 c' = [t |-> "config", kind |-> k[1], ty |-> k[2], n |-> 2, nc |-> 257, nd |-> 40, pre |-> FALSE]
           \* many parameters (24), some of them constant: per-parameter diagnostics are a mix of NaN and finite values
           \/ \E n \in {1, 4, 7}, s \in Sizes :
                 c' = [t |-> "config", kind |-> "GibbsWide", ty |-> "f64", n |-> n, nc |-> s[1], nd |-> s[2], pre |-> FALSE]
           \* slow: the chain's transitions take long enough that PERIODIC sends (one per second) happen, not only the final one
           \/ \E s \in Sizes, sl \in BOOLEAN : \E d \in 0..(s[1] + s[2] + 1) :
                 c' = [t |-> "fault", nc |-> s[1], nd |-> s[2], drop_at |-> d, slow |-> sl]
Emit == c.t # "none" => PrintT(<<"REPLAY", ToJson(c)>>)
=============================================================================
