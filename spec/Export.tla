-------------------------------- MODULE Export --------------------------------
(* Saving samples to disk (src/io/{csv,arrow,parquet}.rs).  A save call is one  *)
(* atomic action; the file system is a function from paths to tables.           *)
(* An array/tensor is given by its shape and holds opaque tokens: entry         *)
(* [i][j][k] of a shape <<s1, s2, s3>> holds token (i s2 + j) s3 + k (row-major)*)
(* -- the harness binds tokens to adversarial values.                           *)
(*                                                                              *)
(* Entry points and the axis order they document:                               *)
(*   csv, csv_tensor, arrow, parquet : [chain][observation][dim]                *)
(*        header <<"chain","observation","dim_0",..>>, rows chain-major          *)
(*   parquet_tensor                  : [observation][chain][dim]                *)
(*        header <<"observation","chain","dim_0",..>>, rows observation-major    *)
EXTENDS Integers, Sequences
CONSTANTS MaxA, MaxB, MaxD, Big    \* Big: a few additional larger shapes
EntryPoints == {"csv", "csv_tensor", "arrow", "parquet", "parquet_tensor"}
Paths == {"ok", "nodir", "isdir", "full"}
  \* writable file / missing directory / a directory / a device that opens and then refuses every byte (the error
  \* reaches the writer only when its buffer is flushed: a save that lets the writer flush on drop reports success)
VARIABLES fs, last
vars == <<fs, last>>

DimNames(d) == [k \in 1..d |-> k - 1]                      \* dim_0 .. dim_{d-1}
Header(ep, d) ==
  IF ep = "parquet_tensor" THEN [l1 |-> "observation", l2 |-> "chain", dims |-> DimNames(d)]
  ELSE [l1 |-> "chain", l2 |-> "observation", dims |-> DimNames(d)]
Tok(shape, i, j, k) == (i * shape[2] + j) * shape[3] + k
\* rows in file order: outer axis first; label1 = outer index, label2 = inner index
Rows(shape) ==
  [r \in 1..(shape[1] * shape[2]) |->
     LET i == (r - 1) \div shape[2]
         j == (r - 1) % shape[2]
     IN [l1 |-> i, l2 |-> j, vals |-> [k \in 1..shape[3] |-> Tok(shape, i, j, k - 1)]]]
Table(ep, shape) == [header |-> Header(ep, shape[3]), rows |-> Rows(shape)]

\* the writable path already holds an older, longer export: a save REPLACES the file (Save sets fs[path] to the new table),
\* it does not write over its beginning -- OneRowPerCell would count the stale rows
Stale == Table("csv", <<3, 50, 2>>)
Init == fs = [p \in {"ok"} |-> Stale] /\ last = [res |-> "none"]
Save(ep, shape, path) ==
  IF path = "ok"
  THEN /\ fs' = [p \in (DOMAIN fs) \cup {path} |-> IF p = path THEN Table(ep, shape) ELSE fs[p]]
       /\ last' = [res |-> "ok", ep |-> ep, shape |-> shape, path |-> path]
  ELSE /\ fs' = fs          \* an error leaves nothing behind
       /\ last' = [res |-> "err", ep |-> ep, shape |-> shape, path |-> path]
Shapes == ((0..MaxA) \X (0..MaxB) \X (0..MaxD)) \cup Big
Next == \E ep \in EntryPoints, sh \in Shapes, p \in Paths : Save(ep, sh, p)
Spec == Init /\ [][Next]_vars

\* one row per (outer, inner) cell, every token exactly once, labels in range
OneRowPerCell == last.res = "ok" =>
  LET t == fs[last.path] s == last.shape IN
  /\ Len(t.rows) = s[1] * s[2]
  /\ \A r \in 1..Len(t.rows) : t.rows[r].l1 \in 0..(s[1] - 1) /\ t.rows[r].l2 \in 0..(s[2] - 1) /\ Len(t.rows[r].vals) = s[3]
  /\ \A r1, r2 \in 1..Len(t.rows) : r1 # r2 => <<t.rows[r1].l1, t.rows[r1].l2>> # <<t.rows[r2].l1, t.rows[r2].l2>>
  /\ \A r \in 1..Len(t.rows), k \in 1..s[3] : t.rows[r].vals[k] = Tok(s, t.rows[r].l1, t.rows[r].l2, k - 1)
ErrLeavesNothing == last.res = "err" => last.path \notin DOMAIN fs
=============================================================================
