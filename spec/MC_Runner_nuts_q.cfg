CONSTANTS
  Chains = {1, 2}
  Workers = 2
  Variant = "nuts"
  NCalls = 2
  MaxCollect = 2
  MaxDiscard = 2
  Bug = "none"
SPECIFICATION Spec
INVARIANTS Exact NoExtraStep LeftAtLast RowIsChain Continuation 
CHECK_DEADLOCK FALSE
