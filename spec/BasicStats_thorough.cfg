CONSTANTS
  MaxLen = 8
  Vals = {0, 1, 3}
  NaNTok = 99
SPECIFICATION Spec
INVARIANTS MinLeMax Emit
CHECK_DEADLOCK FALSE
