CONSTANTS
  C = 2
  N = 6
  Vals = {0, 1, 2}
  EmitReplay = TRUE
SPECIFICATION Spec
INVARIANTS Theorems Emit
CHECK_DEADLOCK FALSE
