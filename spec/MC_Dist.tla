------------------------------- MODULE MC_Dist -------------------------------
(* Enumerates lattice cases of Dist.tla, checks its lemmas (gradient = gradient *)
(* of the stated log-density, symmetry, positivity) and prints one REPLAY line  *)
(* per case with the exact affine form / rational gradient.                     *)
EXTENDS Dist, TLC, Json
CONSTANTS Covs, Means, Pts, Exps, IsoDims, IsoExps, RosenPts, RosenNVals, RosenNDims

Cv(a, b, d) == [a |-> a, b |-> b, d |-> d]
QCovs == {Cv(1, 0, 1), Cv(2, 1, 2), Cv(4, -2, 3), Cv(5, 3, 2), Cv(100, 5, 1), Cv(10000, 30, 1)}
QMeans == {<<0, 0>>, <<1, -2>>}
QPts == {<<x, y>> : x \in {-2, 0, 1, 3}, y \in {-1, 0, 2}}
QExps == {-5, 0, 6}
QIsoDims == {1, 2, 3, 8, 32}
QIsoExps == {-9, -1, 0, 1, 9}
QRosenPts == {<<x, y>> : x \in -2..2, y \in -2..2}
QRosenNVals == {-1, 0, 1, 2}
QRosenNDims == {2, 3}
TCovs == QCovs \cup {Cv(3, 1, 1), Cv(7, -4, 3), Cv(16, 0, 1), Cv(1, 0, 16), Cv(9, 6, 5), Cv(2500, 49, 1)}
TMeans == QMeans \cup {<<-3, 2>>}
TPts == {<<x, y>> : x \in -3..3, y \in -3..3}
TExps == {-10, -5, -1, 0, 1, 6, 13}
TIsoDims == {1, 2, 3, 5, 8, 16, 32}
TIsoExps == {-9, -5, -1, 0, 1, 4, 9}
TRosenPts == {<<x, y>> : x \in -3..3, y \in -3..3}
TRosenNVals == {-2, -1, 0, 1, 2}
TRosenNDims == {2, 3, 4}
VARIABLES c, phase
Init ==
  /\ phase = 0
  /\ \/ c \in [kind : {"gauss"}, cov : Covs, m : Means, x : Pts, e : Exps]
     \/ c \in [kind : {"iso"}, D : IsoDims, e : IsoExps, pat : 1..3]
     \/ c \in [kind : {"rosen2"}, A : {1, 2}, B : {1, 100}, x : RosenPts]
     \/ \E n \in RosenNDims : c \in [kind : {"rosenN"}, x : [1..n -> RosenNVals]]
Next == phase = 0 /\ phase' = 1 /\ UNCHANGED c
Spec == Init /\ [][Next]_<<c, phase>>

IsoFrom(D, pat) == [k \in 1..D |-> ((k * pat) % 5) - 2]
IsoTo(D, pat) == [k \in 1..D |-> ((k * (pat + 2)) % 7) - 3]

Lemmas == phase = 1 =>
  CASE c.kind = "gauss" ->
         LET dx == c.x[1] - c.m[1] dy == c.x[2] - c.m[2] IN
         SPD(c.cov) /\ GaussGradLemma(c.cov, dx, dy) /\ GaussSymmetric(c.cov, dx, dy) /\ GaussPositive(c.cov, dx, dy)
    [] c.kind = "iso" -> IsoSymmetric(IsoFrom(c.D, c.pat), IsoTo(c.D, c.pat))
    [] c.kind = "rosen2" -> Rosen2GradLemma(c.A, c.B, c.x[1], c.x[2])
    [] c.kind = "rosenN" -> RosenNGradLemma(c.x)

Emit == phase = 1 =>
  CASE c.kind = "gauss" ->
         LET dx == c.x[1] - c.m[1] dy == c.x[2] - c.m[2] det == Det(c.cov) IN
         PrintT(<<"REPLAY", ToJson([kind |-> "gauss", cov |-> c.cov, m |-> c.m, x |-> c.x, e |-> c.e,
            \* unnormalised = rn/rd ; normalised adds c2pi ln(2 pi) + (-1/2) ln(det) + ln2c ln 2
            rn |-> -QuadNum(c.cov, dx, dy), rd |-> 2 * det, mag |-> QuadMag(c.cov, dx, dy), det |-> det,
            c2pi |-> -1, lndetn |-> -1, lndetd |-> 2, ln2c |-> -2 * c.e,
            gxn |-> GradNumX(c.cov, dx, dy), gyn |-> GradNumY(c.cov, dx, dy)])>>)
    [] c.kind = "iso" ->
         LET f == IsoFrom(c.D, c.pat) t == IsoTo(c.D, c.pat) IN
         PrintT(<<"REPLAY", ToJson([kind |-> "iso", D |-> c.D, e |-> c.e, from |-> f, to |-> t,
            ssd |-> SumSqDiff(f, t, c.D), sst |-> SumSqDiff([k \in 1..c.D |-> 0], t, c.D),
            \* logq = -ssd / (2 * 4^e) + (-D/2) ln(2 pi) + (-D e) ln 2
            c2pin |-> -c.D, c2pid |-> 2, ln2c |-> -c.D * c.e])>>)
    [] c.kind = "rosen2" ->
         PrintT(<<"REPLAY", ToJson([kind |-> "rosen2", A |-> c.A, B |-> c.B, x |-> c.x,
            v |-> Rosen2(c.A, c.B, c.x[1], c.x[2]),
            g |-> <<Rosen2Gx(c.A, c.B, c.x[1], c.x[2]), Rosen2Gy(c.A, c.B, c.x[1], c.x[2])>>])>>)
    [] c.kind = "rosenN" ->
         PrintT(<<"REPLAY", ToJson([kind |-> "rosenN", x |-> c.x, v |-> RosenN(c.x),
            g |-> [j \in 1..Len(c.x) |-> RosenNG(c.x, j)]])>>)
=============================================================================
