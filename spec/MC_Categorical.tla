--------------------------- MODULE MC_Categorical ---------------------------
EXTENDS Categorical, TLC, Json
CONSTANTS MaxLen, MaxW, K
VARIABLE w
Init == w = <<>>
Next == Len(w) < MaxLen /\ \E v \in 0..MaxW : w' = Append(w, v)
Spec == Init /\ [][Next]_w
Valid == Len(w) >= 1 /\ Total(w) > 0

Theorems == Valid =>
  /\ Quadrature(w, K)
  /\ \A k \in 0..(2 * K) : NonEmpty(w, k, 2 * K)

Thresholds == {i \in 1..Len(w) : SumTo(w, i) > 0 /\ SumTo(w, i) < Total(w)}
Emit == Valid =>
  PrintT(<<"REPLAY", ToJson([w |-> w, total |-> Total(w),
     zero |-> Allowed(w, 0, 1), max |-> LastPosUpTo(w, Len(w)),
     mids |-> [k \in 1..K |-> Allowed(w, 2 * k - 1, 2 * K)],
     below |-> [i \in 1..Len(w) |-> IF i \in Thresholds THEN LastPosUpTo(w, i) ELSE {}],
     above |-> [i \in 1..Len(w) |-> IF i \in Thresholds THEN FirstPosAfter(w, i) ELSE {}],
     \* the variate EXACTLY at the threshold cum_i: both closed intervals contain it
     at |-> [i \in 1..Len(w) |-> IF i \in Thresholds THEN Allowed(w, SumTo(w, i), Total(w)) ELSE {}]])>>)
=============================================================================
