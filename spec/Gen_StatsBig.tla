---------------------------- MODULE Gen_StatsBig ----------------------------
(* Long sample arrays (half-chain lengths on both sides of the 100-row switch  *)
(* between the brute-force and the FFT autocovariance, FFT paddings that are   *)
(* and are not exactly 2n-1 rounded up) generated *inside the specification*:  *)
(* binary Markov chains driven by a 16-bit LCG (flip probability pct/100, i.e. *)
(* lag-1 autocorrelation about 1 - 2 pct/100) and block waves.  Binary values  *)
(* keep every intermediate of Stats.tla below 2^31 up to n = 500 (one chain)   *)
(* or n = 250 (two chains); TLC's overflow check would abort otherwise.        *)
EXTENDS Stats, TLC, Json
VARIABLE case
Lcg(s) == (s * 75 + 74) % 65537

RECURSIVE MarkovBits(_, _, _, _)
\* k more draws, current bit x, LCG state s
MarkovBits(k, x, s, pct) ==
  IF k = 0 THEN <<>>
  ELSE LET s2 == Lcg(s)
           x2 == IF (s2 % 100) < pct THEN 1 - x ELSE x
       IN <<x2>> \o MarkovBits(k - 1, x2, s2, pct)
Block(N, b, phase) == [t \in 1..N |-> ((t + phase) \div b) % 2]

Cases ==
  {[kind |-> "markov", C |-> c, N |-> n, p |-> p, seed |-> sd] :
      c \in {1}, n \in {200, 202, 203, 256, 258, 400, 1000}, p \in {5, 20, 50, 80}, sd \in {7}}
  \cup {[kind |-> "markov", C |-> 2, N |-> n, p |-> p, seed |-> 11] :
      n \in {200, 202, 257, 500}, p \in {10, 35}}
  \cup {[kind |-> "block", C |-> 1, N |-> n, p |-> b, seed |-> 0] :
      n \in {202, 260, 1000}, b \in {3, 10, 25}}
  \* many chains (up to 16), short and odd lengths
  \cup {[kind |-> "markov", C |-> c, N |-> n, p |-> 30, seed |-> 23] : c \in {5, 8, 16}, n \in {9, 21, 64}}
  \* very strongly autocorrelated chains at half lengths whose FFT padding 2n-1 is just above a power of two
  \* (129..181, 257..362): the Geyer sum reaches the lags a too-short padding would wrap around
  \cup {[kind |-> "markov", C |-> c, N |-> n, p |-> p, seed |-> sd] :
      c \in {1}, n \in {362, 724}, p \in {1, 2}, sd \in {3, 19}}
  \cup {[kind |-> "block", C |-> 1, N |-> n, p |-> b, seed |-> 0] : n \in {362, 724}, b \in {60, 90}}
QuickCases == {c \in Cases : (c.N <= 260 /\ c.p \in {5, 10, 35, 50}) \/ (c.N = 362 /\ c.seed \in {0, 3}) \/ (c.seed = 23 /\ c.N \in {9, 64})}

ArrOf(c) ==
  IF c.kind = "markov"
  THEN [ch \in 1..c.C |-> MarkovBits(c.N, 0, c.seed + 1000 * ch, c.p)]
  ELSE [ch \in 1..c.C |-> Block(c.N, c.p, ch)]

CONSTANT Quick
\* the cases are successor states so that they are evaluated on TLC worker threads (whose
\* stack size -Xss governs; deep recursion over 1000 draws overflows the main thread's)
Init == case = [kind |-> "none"]
Next == case.kind = "none" /\ case' \in (IF Quick THEN QuickCases ELSE Cases)
Emit == case.kind # "none" => LET a == ArrOf(case) IN
  PrintT(<<"REPLAY", ToJson([case |-> case, a |-> a, def |-> Defined(a), wn |-> Wn(a),
     rn |-> RhatNum(a), rd |-> RhatDen(a), rnu |-> RhatNumU(a),
     mn |-> NHalves(a) * Half(a), vn |-> Vn(a), pairs |-> Pairs(a), frag |-> Fragile(a)])>>)
=============================================================================
