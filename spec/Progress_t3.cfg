CONSTANTS
  N = 3
  MaxBars = 5
  Total = 3
  NDiscard = 0
  Crash = TRUE
  ReporterBug = "none"
  Slots = 0
  ReporterOnPool = FALSE
SPECIFICATION Spec
INVARIANTS DrawsExact DrawsComplete ExitOnlyWhenAllFinal CountOnce BarsBounded BookAsSets
PROPERTY Termination
CHECK_DEADLOCK FALSE
