CONSTANTS
  N = 3
  MaxBars = 2
  Total = 2
  NDiscard = 1
  Crash = FALSE
  ReporterBug = "none"
  Slots = 1
  ReporterOnPool = TRUE
SPECIFICATION Spec
PROPERTY Termination
CHECK_DEADLOCK FALSE
