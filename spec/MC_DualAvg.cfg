CONSTANTS
  MaxCalls = 3
  MaxCollect = 3
  MaxDiscard = 4
  Vals = {0, 1, 2}
SPECIFICATION Spec
INVARIANT FrozenForever
PROPERTIES NoResume CounterPersists IterationIndex MuFixed
CHECK_DEADLOCK FALSE
