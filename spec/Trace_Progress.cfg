CONSTANTS
  MaxBars = 5
SPECIFICATION Spec
INVARIANTS CountOnce BarsBounded
CONSTRAINT Progressed
POSTCONDITION TraceAccepted
CHECK_DEADLOCK FALSE
