CONSTANTS
  MaxDepth = 1000
  WrongWeight = FALSE
  TrackWeights = FALSE
SPECIFICATION TSpec
INVARIANTS NextStateAdmissible Extent CountIsSlice SubtreeShape
CONSTRAINT Progressed
POSTCONDITION TraceAccepted
CHECK_DEADLOCK FALSE
