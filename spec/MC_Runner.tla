------------------------------ MODULE MC_Runner ------------------------------
EXTENDS Runner, TLC, Json
AllDone == call = NCalls + 1
\* large calls (sizes beyond typical buffer / block thresholds 128, 256, 1000, 1024) for the replay generators
BigGeneric == {<<257, 0>>, <<130, 1030>>, <<1025, 3>>}
BigHmc == {<<257, 0>>, <<3, 300>>}
\* one REPLAY line per call history (the result does not depend on the interleaving: Exact)
Emit == AllDone =>
  PrintT(<<"REPLAY", ToJson([variant |-> Variant, calls |-> Calls,
      results |-> [k \in 1..NCalls |-> [r \in 1..Calls[k][1] |-> results[k][CHOOSE c \in Chains : TRUE][r - 1]]],
      final |-> steps[CHOOSE c \in Chains : TRUE]])>>)
=============================================================================
