------------------------------ MODULE MC_Runner ------------------------------
EXTENDS Runner, TLC, Json
AllDone == call = NCalls + 1
\* one REPLAY line per call history (the result does not depend on the interleaving: Exact)
Emit == AllDone =>
  PrintT(<<"REPLAY", ToJson([variant |-> Variant, calls |-> Calls,
      results |-> [k \in 1..NCalls |-> [r \in 1..Calls[k][1] |-> results[k][CHOOSE c \in Chains : TRUE][r - 1]]],
      final |-> steps[CHOOSE c \in Chains : TRUE]])>>)
=============================================================================
