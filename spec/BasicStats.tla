----------------------------- MODULE BasicStats -----------------------------
(* The run summary (stats.rs basic_stats / RunStats): minimum, maximum, mean,   *)
(* sample standard deviation and "a middle order statistic" of the per-          *)
(* parameter diagnostics.  Values are small integers; NaNTok stands for NaN.    *)
(* When a NaN is present the summary fields are unconstrained (they may be NaN) *)
(* -- only "the computation returns" is required.                               *)
EXTENDS Integers, Sequences, FiniteSets, TLC, Json
CONSTANTS MaxLen, Vals, NaNTok
VARIABLE s
Init == s = <<>>
Next == Len(s) < MaxLen /\ \E v \in Vals \cup {NaNTok} : s' = Append(s, v)
Spec == Init /\ [][Next]_s

HasNaN(q) == \E i \in 1..Len(q) : q[i] = NaNTok
RECURSIVE Sum(_, _)
Sum(q, k) == IF k = 0 THEN 0 ELSE q[k] + Sum(q, k - 1)
SumSq(q) == Sum([i \in 1..Len(q) |-> q[i] * q[i]], Len(q))
Min(q) == CHOOSE v \in {q[i] : i \in 1..Len(q)} : \A i \in 1..Len(q) : v <= q[i]
Max(q) == CHOOSE v \in {q[i] : i \in 1..Len(q)} : \A i \in 1..Len(q) : v >= q[i]
\* j-th order statistic, 0-based ascending
OrderStat(q, j) ==
  CHOOSE v \in {q[i] : i \in 1..Len(q)} :
    /\ Cardinality({i \in 1..Len(q) : q[i] < v}) <= j
    /\ Cardinality({i \in 1..Len(q) : q[i] <= v}) > j
\* a middle order statistic: the median for odd length, either middle element for even length
Middles(q) == LET n == Len(q) IN
  IF n % 2 = 1 THEN {OrderStat(q, n \div 2)}
  ELSE {OrderStat(q, n \div 2 - 1), OrderStat(q, n \div 2)}

MinLeMax == (Len(s) >= 1 /\ ~HasNaN(s)) =>
  /\ Min(s) <= Max(s)
  /\ \A v \in Middles(s) : Min(s) <= v /\ v <= Max(s)
  /\ Len(s) * Min(s) <= Sum(s, Len(s)) /\ Sum(s, Len(s)) <= Len(s) * Max(s)
  /\ Len(s) * SumSq(s) >= Sum(s, Len(s)) * Sum(s, Len(s))     \* variance >= 0

Emit == Len(s) >= 1 =>
  PrintT(<<"REPLAY", ToJson(
    IF HasNaN(s) THEN [s |-> s, nan |-> TRUE]
    ELSE [s |-> s, nan |-> FALSE, min |-> Min(s), max |-> Max(s), sum |-> Sum(s, Len(s)),
          sumsq |-> SumSq(s), mids |-> Middles(s)])>>)
=============================================================================
