CONSTANTS
  N = 3
  MaxBars = 2
  Total = 2
  NDiscard = 1
  Crash = TRUE
  ReporterBug = "none"
  Slots = 2
  ReporterOnPool = FALSE
SPECIFICATION Spec
INVARIANTS DrawsExact DrawsComplete ExitOnlyWhenAllFinal CountOnce BarsBounded BookAsSets PoolRespected
PROPERTY Termination
CHECK_DEADLOCK FALSE
