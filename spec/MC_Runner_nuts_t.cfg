CONSTANTS
  Chains = {1, 2, 3}
  Workers = 2
  Variant = "nuts"
  NCalls = 2
  MaxCollect = 3
  MaxDiscard = 3
  Bug = "none"
SPECIFICATION Spec
INVARIANTS Exact NoExtraStep LeftAtLast RowIsChain Continuation 
CHECK_DEADLOCK FALSE
