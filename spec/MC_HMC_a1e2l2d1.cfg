CONSTANTS
  A = 1
  E = 2
  L = 2
  K = 0
  Dim = 1
  X0s <- X1i
  P0s <- P1i
  UClasses <- U
  MaxSteps = 1
SPECIFICATION Spec
INVARIANTS ExactLattice LeapfrogIsVerlet Reversible ZeroLeapfrogs SelectNoBlend Emit
CHECK_DEADLOCK FALSE
