CONSTANTS
  C = 1
  N = 7
  Vals = {0, 1, 3}
  EmitReplay = TRUE
SPECIFICATION Spec
INVARIANTS Theorems Emit
CHECK_DEADLOCK FALSE
