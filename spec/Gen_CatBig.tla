------------------------------ MODULE Gen_CatBig ------------------------------
(* Long weight vectors (length up to 64, zeros at any position, in runs, first *)
(* and last) generated inside the specification by a 16-bit LCG.               *)
EXTENDS Categorical, TLC, Json
CONSTANTS K, Quick
VARIABLE case
Lcg(s) == (s * 75 + 74) % 65537
RECURSIVE Weights(_, _, _)
Weights(n, s, zeropct) ==
  IF n = 0 THEN <<>>
  ELSE LET s2 == Lcg(s) IN
       <<(IF (s2 % 100) < zeropct THEN 0 ELSE 1 + ((s2 \div 100) % 3))>> \o Weights(n - 1, s2, zeropct)
Cases == {[len |-> n, seed |-> sd, z |-> z] : n \in {6, 8, 17, 33, 64}, sd \in {3, 5, 9}, z \in {30, 60, 90}}
Init == case = [len |-> 0]
QuickCases == {c \in Cases : c.len \in {8, 64} /\ c.z = 60 /\ c.seed \in {5, 9}}
Next == case.len = 0 /\ case' \in (IF Quick THEN QuickCases ELSE Cases)
W0(c) == LET v == Weights(c.len, c.seed, c.z) IN
  \* force the corner patterns: leading and trailing zeros
  [i \in 1..c.len |-> IF (c.seed = 3 /\ i = 1) \/ (c.seed = 5 /\ i = c.len) \/ (c.seed = 9 /\ i \in {1, c.len}) THEN 0 ELSE v[i]]
Thresholds(w) == {i \in 1..Len(w) : SumTo(w, i) > 0 /\ SumTo(w, i) < Total(w)}
Emit == (case.len > 0 /\ Total(W0(case)) > 0) => LET w == W0(case) IN
  PrintT(<<"REPLAY", ToJson([w |-> w, total |-> Total(w),
     zero |-> Allowed(w, 0, 1), max |-> LastPosUpTo(w, Len(w)),
     mids |-> [k \in 1..K |-> Allowed(w, 2 * k - 1, 2 * K)],
     below |-> [i \in 1..Len(w) |-> IF i \in Thresholds(w) THEN LastPosUpTo(w, i) ELSE {}],
     above |-> [i \in 1..Len(w) |-> IF i \in Thresholds(w) THEN FirstPosAfter(w, i) ELSE {}],
     at |-> [i \in 1..Len(w) |-> IF i \in Thresholds(w) THEN Allowed(w, SumTo(w, i), Total(w)) ELSE {}]])>>)
=============================================================================
