---------------------------- MODULE MC_Trackers ----------------------------
(* Every update history of C chains x P parameters over Vals up to length L:  *)
(* the histories are grown round by round (one state per chain per round).    *)
(* At every round >= 2 the expected statistics are printed for replay.        *)
EXTENDS Trackers, TLC, Json
CONSTANTS C, P, L, Vals
VARIABLES ts, hist
States == [1..P -> Vals]
Init == /\ ts = [c \in 1..C |-> NewTracker(P, [k \in 1..P |-> 0])]
        /\ hist = <<>>
Next == /\ Len(hist) < L
        /\ \E row \in [1..C -> States] :
             /\ ts' = [c \in 1..C |-> Feed(ts[c], row[c])]
             /\ hist' = Append(hist, row)
Spec == Init /\ [][Next]_<<ts, hist>>

\* model-level sanity: variance numerators are non-negative, counts agree
Sane == \A c \in 1..C : ts[c].n = Len(hist) /\ \A k \in 1..P : VarNum(ts[c], k) >= 0
\* R-hat^2 >= (n-1)/n whenever defined
LowerBound == Len(hist) >= 2 => \A k \in 1..P :
  WNum(ts, k) > 0 => Len(hist) * RhatNum(ts, k) >= (Len(hist) - 1) * RhatDen(ts, k)

Emit == Len(hist) >= 2 =>
  PrintT(<<"REPLAY", ToJson([hist |-> hist, n |-> Len(hist),
     s |-> [c \in 1..C |-> ts[c].s], q |-> [c \in 1..C |-> ts[c].q],
     wn |-> [k \in 1..P |-> WNum(ts, k)],
     rn |-> [k \in 1..P |-> RhatNum(ts, k)], rd |-> [k \in 1..P |-> RhatDen(ts, k)]])>>)
=============================================================================
