------------------------------ MODULE Progress ------------------------------
(* The progress-mode protocol of ChainRunner::run_progress (src/core.rs) and      *)
(* NUTS::run_progress (src/nuts.rs): one worker thread per chain, one mpsc        *)
(* channel per chain, one reporter thread that polls the channels, shows at most  *)
(* MaxBars chain bars (recycling them when a chain finishes) and exits once it    *)
(* has seen the final statistics of every chain.                                  *)
(*                                                                              *)
(* Worker c (run_chain_progress), one action per loop iteration:                  *)
(*     step; tracker update; send stats iff (a second has passed -- modelled as   *)
(*     a nondeterministic boolean -- or this is the last iteration); a failed     *)
(*     send (receiver gone) only prints; store the state if past burn-in.         *)
(* Reporter, per loop iteration:                                                  *)
(*     RDrain(k), k = 1..N in order: take everything currently in channel k, keep *)
(*     the latest;  RBook: for every shown chain whose latest stats have          *)
(*     n = total: count it as finished and give its bar to the next chain not yet *)
(*     shown (or drop the bar); exit iff finished >= N; otherwise sleep, repeat.  *)
(* Fault: RCrash -- the receiving side disappears at any moment.                  *)
(*                                                                              *)
(* Execution resources.  ChainRunner::run_progress gives every chain a scoped OS  *)
(* thread (Slots = 0: unbounded, every worker runs from the start); HMC and NUTS  *)
(* put the chains on the ambient rayon pool, whose size the CALLER decides        *)
(* (RAYON_NUM_THREADS, ThreadPool::install, a one-core container): Slots >= 1     *)
(* executors, a chain job occupies one from its start (WStart) to its last        *)
(* iteration -- rayon jobs run to completion.  The reporter has a thread of its   *)
(* own and occupies none: that is what makes termination independent of the pool  *)
(* size.  ReporterOnPool = TRUE is the deviation in which the reporter is itself  *)
(* a pool job (rayon::join(report, chains)): it occupies an executor until it     *)
(* exits, and it exits only after every chain has finished.                       *)
EXTENDS Integers, Sequences, FiniteSets, ProgressBook

CONSTANTS N,          \* number of chains
          MaxBars,    \* 5 in the code
          Total,      \* n_collect + n_discard  (>= 1)
          NDiscard,
          Crash,      \* BOOLEAN: may the receiver vanish?
          ReporterBug,\* "none"; "no_recycle" = negative control: bars of finished chains are dropped, never recycled
          Slots,      \* executors available to chain workers; 0 = one thread per chain
          ReporterOnPool \* BOOLEAN: negative control -- the reporter occupies an executor while it runs
Chains == 1..N
VARIABLES wi,        \* wi[c]: loop iterations worker c has completed (0..Total)
          chan,      \* chan[c]: FIFO of message values n
          rxAlive,   \* receivers exist
          recent,    \* recent[c]: latest n seen by the reporter (0 = none yet)
          active,    \* sequence of chain ids currently shown in bars
          nextActive,\* next chain id to get a bar (N+1 = none left)
          nFinished,
          rpc,       \* "drain" | "book" | "exit" | "dead"
          rk,        \* channel the reporter drains next
          out,       \* out[c]: what worker c stored (transition counts)
          started    \* chains whose job has been picked up by an executor
vars == <<wi, chan, rxAlive, recent, active, nextActive, nFinished, rpc, rk, out, started>>

Min(a, b) == IF a < b THEN a ELSE b
Init ==
  /\ wi = [c \in Chains |-> 0] /\ chan = [c \in Chains |-> <<>>] /\ rxAlive = TRUE
  /\ recent = [c \in Chains |-> 0]
  /\ active = [j \in 1..Min(N, MaxBars) |-> j] /\ nextActive = Min(N, MaxBars) + 1
  /\ nFinished = 0 /\ rpc = "drain" /\ rk = 1
  /\ out = [c \in Chains |-> <<>>]
  /\ started = IF Slots = 0 THEN Chains ELSE {}

\* executors in use: chain jobs that have started and not finished, plus the reporter if it is a pool job
Busy == Cardinality({c \in started : wi[c] < Total}) + (IF ReporterOnPool /\ rpc \notin {"exit", "dead"} THEN 1 ELSE 0)
WStart(c) ==
  /\ c \notin started /\ Busy < Slots
  /\ started' = started \cup {c}
  /\ UNCHANGED <<wi, chan, rxAlive, recent, active, nextActive, nFinished, rpc, rk, out>>

WStep(c, periodic) ==
  /\ c \in started
  /\ wi[c] < Total
  /\ LET i == wi[c]                       \* loop index of this iteration
         sends == periodic \/ i = Total - 1
     IN /\ chan' = IF sends /\ rxAlive THEN [chan EXCEPT ![c] = Append(chan[c], i + 1)] ELSE chan
        /\ out' = IF i >= NDiscard THEN [out EXCEPT ![c] = Append(out[c], i + 1)] ELSE out
  /\ wi' = [wi EXCEPT ![c] = wi[c] + 1]
  /\ UNCHANGED <<rxAlive, recent, active, nextActive, nFinished, rpc, rk, started>>

RDrain ==
  /\ rpc = "drain" /\ rxAlive
  /\ recent' = IF chan[rk] # <<>> THEN [recent EXCEPT ![rk] = chan[rk][Len(chan[rk])]] ELSE recent
  /\ chan' = [chan EXCEPT ![rk] = <<>>]
  /\ IF rk = N THEN rpc' = "book" /\ rk' = 1 ELSE rpc' = rpc /\ rk' = rk + 1
  /\ UNCHANGED <<wi, rxAlive, active, nextActive, nFinished, out, started>>

Book(act, nxt, fin, rec) == BookFn(act, nxt, fin, rec, N, Total, ReporterBug # "no_recycle")

RBook ==
  /\ rpc = "book"
  /\ LET b == Book(active, nextActive, nFinished, recent) IN
     /\ active' = b.active /\ nextActive' = b.next /\ nFinished' = b.fin
     /\ rpc' = IF b.fin >= N THEN "exit" ELSE "drain"
  /\ UNCHANGED <<wi, chan, rxAlive, recent, rk, out, started>>

RCrash ==
  /\ Crash /\ rxAlive /\ rpc \in {"drain", "book"}
  /\ rxAlive' = FALSE /\ rpc' = "dead"
  /\ UNCHANGED <<wi, chan, recent, active, nextActive, nFinished, rk, out, started>>

Next == (\E c \in Chains, p \in BOOLEAN : WStep(c, p)) \/ (\E c \in Chains : WStart(c)) \/ RDrain \/ RBook \/ RCrash
\* an idle executor picks up SOME waiting chain job (which one is the pool's business): weak fairness on the disjunction
Fairness == /\ \A c \in Chains : WF_vars(\E p \in BOOLEAN : WStep(c, p))
            /\ WF_vars(\E c \in Chains : WStart(c))
            /\ WF_vars(RDrain) /\ WF_vars(RBook)
Spec == Init /\ [][Next]_vars /\ Fairness

(* ------------------------------- properties ------------------------------- *)
AllWorkersDone == \A c \in Chains : wi[c] = Total
\* run_progress returns: every worker finished and the reporter left its loop (or died)
Termination == <>(AllWorkersDone /\ rpc \in {"exit", "dead"})
\* the draws are those of run(): entry k is the state after NDiscard + k + 1 transitions, crash or not
DrawsExact == \A c \in Chains : \A k \in 1..Len(out[c]) : out[c][k] = NDiscard + k
DrawsComplete == AllWorkersDone => \A c \in Chains : Len(out[c]) = Total - NDiscard
\* the reporter leaves only after every chain has delivered its final statistics
ExitOnlyWhenAllFinal == rpc = "exit" => (\A c \in Chains : recent[c] = Total)
\* a chain is counted once
CountOnce == nFinished <= N /\ nFinished = Cardinality({c \in Chains : recent[c] = Total /\ \A j \in 1..Len(active) : active[j] # c /\ c < nextActive})
\* The bookkeeping pass as a SET operation (the abstraction apalache/ProgressInd.tla proves inductive for N = 16):
\* the order in which the bars are visited does not matter -- the finished shown chains leave, the first `take`
\* waiting chains enter, and exactly the finished ones are counted.
BookAsSets ==
  rpc = "book" =>
    LET b == Book(active, nextActive, nFinished, recent)
        shownSet == {active[j] : j \in 1..Len(active)}
        fin == {c \in shownSet : recent[c] = Total}
        k == Cardinality(fin)
        avail == N - nextActive + 1
        take == IF ReporterBug = "no_recycle" THEN 0 ELSE IF k < avail THEN k ELSE avail
    IN /\ {b.active[j] : j \in 1..Len(b.active)} = (shownSet \ fin) \cup {c \in Chains : nextActive <= c /\ c < nextActive + take}
       /\ b.next = nextActive + take
       /\ b.fin = nFinished + k
\* the pool is never over-committed, and a job that was never picked up has done nothing
PoolRespected == (Slots > 0 => Busy <= Slots) /\ \A c \in Chains : c \notin started => wi[c] = 0
BarsBounded == Len(active) <= MaxBars /\ \A j, k \in 1..Len(active) : j # k => active[j] # active[k]
=============================================================================
