SPECIFICATION Spec
INVARIANTS CallOrder OnlyOwnCoordinate
POSTCONDITION TraceAccepted
CHECK_DEADLOCK FALSE
