----------------------------- MODULE Trace_Gibbs -----------------------------
(* Trace validation for Gibbs chains: the recording conditional of the harness *)
(* logs every call (index, the state it was shown, the value it returned) and  *)
(* the harness logs the chain state after each step().  The trace must be a    *)
(* behaviour of Gibbs.tla: calls in coordinate order, each on the freshest     *)
(* state, the answer written to that coordinate only, nothing else changed.    *)
EXTENDS Gibbs, Json, IOUtils, TLC
Rec == ndJsonDeserialize(IOEnv.TRACE)
VARIABLES l, ends     \* ends: sweeps completed since the chain was started
vars == <<gvars, l, ends>>

Init == l = 1 /\ state = <<>> /\ next = 1 /\ calls = <<>> /\ ends = 0

Start ==
  /\ l <= Len(Rec) /\ Rec[l].e = "init"
  /\ next = 1                       \* never in the middle of a sweep
  /\ state' = Rec[l].state /\ next' = 1 /\ calls' = <<>> /\ ends' = 0
  /\ l' = l + 1
Call ==
  /\ l <= Len(Rec) /\ Rec[l].e = "call"
  /\ Rec[l].i + 1 = next            \* 0-based index in the code
  /\ Rec[l].given = state           \* shown the freshest state
  /\ Refresh(Rec[l].ret)
  /\ l' = l + 1 /\ UNCHANGED ends
End ==
  /\ l <= Len(Rec) /\ Rec[l].e = "end"
  /\ EndStep
  /\ Rec[l].state = state           \* what step() left behind and returned
  /\ l' = l + 1 /\ ends' = ends + 1
\* a burn-in sweep of a sampler-level run: its end state is not returned, only that it was one complete sweep
EndB ==
  /\ l <= Len(Rec) /\ Rec[l].e = "endb"
  /\ EndStep
  /\ l' = l + 1 /\ ends' = ends + 1
\* a sampler-level run() asked this chain for `sweeps` transitions: the chain's OWN conditional (the one the caller
\* installed in the chain) was queried for every one of them
Ran ==
  /\ l <= Len(Rec) /\ Rec[l].e = "ran"
  /\ next = 1 /\ Rec[l].sweeps = ends
  /\ UNCHANGED <<gvars, ends>> /\ l' = l + 1
Next == Start \/ Call \/ End \/ EndB \/ Ran
Spec == Init /\ [][Next]_vars

TraceAccepted ==
  LET d == TLCGet("stats").diameter IN
  /\ PrintT(<<"TRACE_MATCHED", d - 1, Len(Rec)>>)
  /\ d - 1 = Len(Rec)
=============================================================================
