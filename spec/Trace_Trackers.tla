--------------------------- MODULE Trace_Trackers ---------------------------
(* Trace validation of ChainTracker / MultiChainTracker histories.  After each *)
(* update the harness logs what the tracker reports (count, means and unbiased *)
(* variances in units of 2^-12, acceptance rate in 2^-20 / 2^-15); the         *)
(* specification recomputes the exact sufficient statistics incrementally and  *)
(* checks every report against them.  f32 budget: (2 + n/256) units on means,  *)
(* (4 + n/32) units on variances (values are integers 0..7).                   *)
EXTENDS Trackers, Json, IOUtils, TLC, FiniteSets
Rec == ndJsonDeserialize(IOEnv.TRACE)
VARIABLES l, t, p, mlast, mp, mC,
          mn,     \* updates the multi-chain tracker has seen
          ms      \* representation slack of the chain's means: ulp of its location in units of 2^-12 (0 near the origin)
vars == <<l, t, p, mlast, mp, mC, mn, ms>>

Init == l = 1 /\ t = NewTracker(0, <<>>) /\ p = -1 /\ mlast = <<>> /\ mp = 0 /\ mC = 0 /\ mn = 0 /\ ms = 0

Abs(x) == IF x < 0 THEN -x ELSE x
\* A chain that lives at location `off` is traced RELATIVE to off (mean and variance are shift-equivariant / invariant).
\* The reported mean is an f32 number at that location: it cannot be closer than the spacing of f32 numbers there
\* (ms units, 2 of them allowed -- at 1e9, for f64 / integer states, that is 128); nothing else may depend on the
\* location: the variance gets at most 2 units -- a tracker that accumulates raw values
\* (E[x^2] - mean^2, or a running mean of the raw values that stalls once delta/n drops below the spacing) is rejected.
\* (written with a division: at 1e9 the allowance is 2 * 262144 units and its product with n = 5000 leaves TLC's 32 bits)
MeanOk(tr, k, m) == Abs(m - (MeanNum(tr, k) * 4096) \div tr.n) <= 3 + tr.n \div 256 + 2 * ms
VarOk(tr, k, v) == Abs(v - Fx12(VarNum(tr, k), tr.n * (tr.n - 1))) <= 4 + tr.n \div 32 + (IF ms < 2 THEN ms ELSE 2)

New ==
  /\ l <= Len(Rec) /\ Rec[l].e = "new"
  /\ t' = NewTracker(Rec[l].P, Rec[l].x0) /\ p' = -1 /\ ms' = Rec[l].mslack
  /\ UNCHANGED <<mlast, mp, mC, mn>> /\ l' = l + 1

Upd ==
  /\ l <= Len(Rec) /\ Rec[l].e = "upd"
  /\ LET e == Rec[l]
         t2 == Feed(t, e.x)
     IN /\ e.n = t2.n
        /\ \A k \in 1..Len(e.x) : MeanOk(t2, k, e.mean[k])
        /\ t2.n >= 2 => \A k \in 1..Len(e.x) : VarOk(t2, k, e.var[k])
        /\ InUnit(e.p)
        \* the average of indicators starts with the first indicator ("did the state change")
        /\ p >= 0 => EmaStepOk(p, e.p, Moved(t, e.x))
        /\ p < 0 => e.p = (IF Moved(t, e.x) THEN 1048576 ELSE 0)
        /\ t' = t2 /\ p' = e.p
  /\ UNCHANGED <<mlast, mp, mC, mn, ms>> /\ l' = l + 1

MNew ==
  /\ l <= Len(Rec) /\ Rec[l].e = "mnew"
  /\ mC' = Rec[l].C /\ mp' = 0 /\ mn' = 0
  /\ mlast' = [c \in 1..Rec[l].C |-> [k \in 1..Rec[l].P |-> 0]]
  /\ UNCHANGED <<t, p, ms>> /\ l' = l + 1

MUpd ==
  /\ l <= Len(Rec) /\ Rec[l].e = "mupd"
  /\ LET e == Rec[l]
         k == Cardinality({c \in 1..mC : e.rows[c] # mlast[c]})
     IN /\ Len(e.rows) = mC
        /\ e.p >= 0 /\ e.p <= 32768
        \* the tracker is built without a state: its first update has nothing to compare with and only records; the
        \* average of indicators then starts with the first indicator (that of the first chain), as in ChainTracker.
        \* Before any indicator exists the property fixes no value beyond the range [0, 1] demanded above.
        /\ IF mn = 0 THEN TRUE
           ELSE IF mn = 1 THEN EmaFoldOk(IF e.rows[1] # mlast[1] THEN 32768 ELSE 0, e.p, mC, k)
           ELSE EmaFoldOk(mp, e.p, mC, k)
        /\ mlast' = e.rows /\ mp' = e.p /\ mn' = mn + 1
  /\ UNCHANGED <<t, p, mC, ms>> /\ l' = l + 1

Next == New \/ Upd \/ MNew \/ MUpd
Spec == Init /\ [][Next]_vars

TraceAccepted ==
  LET d == TLCGet("stats").diameter IN
  /\ PrintT(<<"TRACE_MATCHED", d - 1, Len(Rec)>>)
  /\ d - 1 = Len(Rec)
=============================================================================
