CONSTANTS
  C = 2
  P = 2
  L = 3
  Vals = {0, 1}
SPECIFICATION Spec
INVARIANTS Sane LowerBound Emit
CHECK_DEADLOCK FALSE
