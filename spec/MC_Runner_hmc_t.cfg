CONSTANTS
  Chains = {1}
  Workers = 1
  Variant = "hmc"
  NCalls = 3
  MaxCollect = 3
  MaxDiscard = 3
  Bug = "none"
SPECIFICATION Spec
INVARIANTS Exact NoExtraStep LeftAtLast RowIsChain Continuation 
CHECK_DEADLOCK FALSE
