----------------------------- MODULE AcceptKinds -----------------------------
(* C14 at the level of IEEE kinds: the accept / slice tests of HMC and NUTS can  *)
(* never move a chain from a good state (finite log-density, finite momentum)    *)
(* to a state of zero / NaN density or to a non-finite point.  Exhaustive case   *)
(* analysis over -inf / finite / +inf / NaN (MH is covered by MH.tla).           *)
(*                                                                              *)
(* HMC : proposal energy h1 = -logp' + |p'|^2/2, accept iff  ln u <= h0 - h1.    *)
(* NUTS: slice level logu = joint0 - e, e ~ Exp(1); a trajectory point can       *)
(*       become the state only if  logu < joint  (n' = 1); the tree goes on      *)
(*       only if  logu - 1000 < joint.                                           *)
EXTENDS ExtReal, Integers
Vals == {NInf, PInf, NaN} \cup {Fin(k) : k \in {-2000, -1, 0, 1, 2000}}
VARIABLES kind, a, b, c
Init == kind \in {"hmc", "nuts"} /\ a \in Vals /\ b \in Vals /\ c \in Vals
Next == UNCHANGED <<kind, a, b, c>>

\* ---- HMC: a = logp' (proposal log-density), b = kinetic energy of the proposal, c = ln u
\* the chain starts good: h0 is finite
H0 == Fin(0)
H1 == Add(Neg(a), b)
HmcAccepts == Le(c, Sub(H0, H1))
KineticOk == b.k \in {"fin", "pinf", "nan"} /\ (b.k = "fin" => b.v >= 0)     \* |p|^2/2 is never negative or -inf
HmcGood ==
  (kind = "hmc" /\ KineticOk /\ HmcAccepts /\ c.k # "ninf")       \* ln u = -inf (u = 0) is excepted by the property
     => (GoodDensity(a) /\ b.k = "fin")                            \* density positive and not NaN, momentum finite

\* ---- NUTS: a = joint of the leaf, b = joint0 of the start (finite), c = -e (ln of a uniform in (0,1])
LogU == Add(b, c)
InSlice == Lt(LogU, a)
Continues == Lt(Sub(LogU, Fin(1000)), a)
NutsGood ==
  (kind = "nuts" /\ b.k = "fin" /\ c.k = "fin" /\ c.v <= 0 /\ InSlice) => a.k \in {"fin", "pinf"}
SliceImpliesContinue == (kind = "nuts" /\ InSlice /\ LogU.k = "fin") => Continues
NaNStops == (kind = "nuts" /\ a.k = "nan") => (~InSlice /\ ~Continues)
=============================================================================
