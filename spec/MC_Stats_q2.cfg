CONSTANTS
  C = 1
  N = 8
  Vals = {0, 1}
  EmitReplay = TRUE
SPECIFICATION Spec
INVARIANTS Theorems Emit
CHECK_DEADLOCK FALSE
