---------------------------- MODULE Trace_DualAvg ----------------------------
(* Trace validation of the step-size adaptation of real NUTS chains.             *)
(* "init" events (one per run() call) and "step" events (one per transition)     *)
(* carry ln eps, ln eps_bar, H-bar, mu, the acceptance statistic alpha and        *)
(* n_alpha as ExtReal in 2^-16 units, the harness's f64 re-evaluation of the      *)
(* three recurrences from the LOGGED previous values (residuals rh, re, rb in     *)
(* units of the tolerance), and positivity/finiteness flags.  The specification   *)
(* decides the phase (Adapt iff m <= n_discard, else Freeze), checks the counter, *)
(* the shrinkage point, the power-of-two start value, the coarse interval         *)
(* relations of DualAvg.tla (certified tables) and the fine residuals.            *)
EXTENDS DualAvg, Json, IOUtils, TLC
Rec == ndJsonDeserialize(IOEnv.TRACE)
Budget == 8
VARIABLES l, m, nd, le, leb, hb, mu, delta, first,
          ka      \* adapting transitions of the chain so far: the iteration index of the dual averaging
vars == <<l, m, nd, le, leb, hb, mu, delta, first, ka>>
Fx12(x) == x.v \div 16
Fin(x) == x.k = "fin"
Init == l = 1 /\ m = 0 /\ nd = 0 /\ le = 0 /\ leb = 0 /\ hb = 0 /\ mu = 0 /\ delta = 0 /\ first = TRUE /\ ka = 0

NewChain ==
  /\ l <= Len(Rec) /\ Rec[l].e = "chain"
  /\ m' = 0 /\ nd' = 0 /\ le' = 0 /\ leb' = 0 /\ hb' = 0 /\ mu' = 0 /\ first' = TRUE /\ ka' = 0
  /\ delta' = Fx12(Rec[l].delta) /\ l' = l + 1

InitEv ==
  /\ l <= Len(Rec) /\ Rec[l].e = "init"
  /\ LET e == Rec[l] IN
     /\ e.m = m                                    \* the warm-up counter persists across calls
     /\ e.eps_pos_finite /\ Fin(e.eps) /\ Fin(e.mu)
     /\ (m = 0) => MuOk(Fx12(e.mu), Fx12(e.eps))   \* shrinkage point ln(10 eps0): fixed when the chain starts ...
     /\ (m > 0) => Fx12(e.mu) = mu                 \* ... and kept by every later call
     /\ (first /\ ~e.forced) => PowerOfTwo(Fx12(e.eps))           \* eps0 from the doubling/halving heuristic
     /\ ~first => Fx12(e.eps) = le                 \* later calls keep the current step size
     /\ nd' = e.nd /\ le' = Fx12(e.eps) /\ mu' = Fx12(e.mu) /\ first' = FALSE
  /\ UNCHANGED <<m, leb, hb, delta, ka>> /\ l' = l + 1

StepEv ==
  /\ l <= Len(Rec) /\ Rec[l].e = "step"
  /\ LET e == Rec[l]
         m2 == m + 1
         a == IF e.na > 0 /\ Fin(e.alpha) THEN Fx12(e.alpha) \div e.na ELSE 0
     IN /\ e.m = m2 /\ e.nd = nd
        /\ e.eps_pos_finite /\ e.epsbar_pos_finite       \* positive and finite throughout
        /\ Fin(e.eps) /\ Fin(e.epsbar) /\ Fin(e.hbar)
        /\ e.rh <= Budget
        /\ IF m2 <= nd
           THEN \* Adapt: one more iteration of the dual averaging, indexed by the count of ADAPTING transitions (a warm-up
                \* resumed by a later call continues where the previous one stopped)
                /\ e.ka = ka + 1
                /\ e.re <= Budget /\ e.rb <= Budget
                /\ (Fin(e.alpha) /\ ka + 1 <= 2038) => HbarOk(ka + 1, hb, Fx12(e.hbar), delta, a)
                /\ ka + 1 <= 2048 => (EpsOk(ka + 1, mu, Fx12(e.hbar), Fx12(e.eps)) /\ EpsBarOk(ka + 1, leb, Fx12(e.eps), Fx12(e.epsbar)))
                /\ ka' = ka + 1
           ELSE \* Freeze: the step size is the averaged iterate, which no longer moves; neither does the adaptation state
                /\ e.ka = ka
                /\ e.eps = e.epsbar
                /\ Fx12(e.epsbar) = leb
                /\ Fx12(e.hbar) = hb
                /\ ka' = ka
        /\ m' = m2 /\ le' = Fx12(e.eps) /\ leb' = Fx12(e.epsbar) /\ hb' = Fx12(e.hbar)
  /\ UNCHANGED <<nd, mu, delta, first>> /\ l' = l + 1

\* the start-up heuristic called directly (verif wrapper): a power of two at which Algorithm 4's loop stops
\* (acceptance crosses 1/2 between the previous candidate and this one)
HeurEv ==
  /\ l <= Len(Rec) /\ Rec[l].e = "heur"
  /\ Rec[l].pos_finite /\ PowerOfTwo(Fx12(Rec[l].eps))
  /\ StartValueOk(Rec[l].a_one, Rec[l].a_eps, Rec[l].a_half, Rec[l].a_twice, Rec[l].eps, Rec[l].slack)
  /\ UNCHANGED <<m, nd, le, leb, hb, mu, delta, first, ka>> /\ l' = l + 1

\* a chain of the multi-chain front end after its first run() / run_progress() call: its shrinkage point is ln(10 eps0) of
\* ITS OWN start value (the heuristic at its start point with its first momentum draw, evaluated by the harness through
\* the wrapper that the "heur" events bind to Algorithm 4)
MultiEv ==
  /\ l <= Len(Rec) /\ Rec[l].e = "multi"
  /\ LET e == Rec[l] IN
     /\ e.ok_run /\ Fin(e.eps0) /\ Fin(e.mu) /\ Fin(e.eps)
     /\ PowerOfTwo(Fx12(e.eps0))
     /\ MuOk(Fx12(e.mu), Fx12(e.eps0))
  /\ UNCHANGED <<m, nd, le, leb, hb, mu, delta, first, ka>> /\ l' = l + 1

Next == NewChain \/ InitEv \/ StepEv \/ HeurEv \/ MultiEv
Spec == Init /\ [][Next]_vars
\* within a run, once m > n_discard the step size never changes again
FrozenForever == [][(l' = l + 1 /\ l <= Len(Rec) /\ Rec[l].e = "step" /\ m >= nd /\ m > 0 /\ ~first) => (le' = leb /\ leb' = leb)]_vars
TraceAccepted ==
  LET d == TLCGet("stats").diameter IN
  /\ PrintT(<<"TRACE_MATCHED", d - 1, Len(Rec)>>)
  /\ d - 1 = Len(Rec)
=============================================================================
