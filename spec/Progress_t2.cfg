CONSTANTS
  N = 5
  MaxBars = 2
  Total = 2
  NDiscard = 1
  Crash = FALSE
  ReporterBug = "none"
SPECIFICATION Spec
INVARIANTS DrawsExact DrawsComplete ExitOnlyWhenAllFinal CountOnce BarsBounded BookAsSets
PROPERTY Termination
CHECK_DEADLOCK FALSE
