CONSTANTS
  N = 5
  MaxBars = 2
  Total = 2
  NDiscard = 1
  Crash = FALSE
  ReporterBug = "none"
  Slots = 0
  ReporterOnPool = FALSE
SPECIFICATION Spec
INVARIANTS DrawsExact DrawsComplete ExitOnlyWhenAllFinal CountOnce BarsBounded BookAsSets
PROPERTY Termination
CHECK_DEADLOCK FALSE
