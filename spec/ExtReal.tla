------------------------------ MODULE ExtReal ------------------------------
(* IEEE-754 "kinds": a log-density / energy is -inf, finite, +inf or NaN.   *)
(* Finite values carry an integer (the unit is chosen by the using module). *)
(* Arithmetic and comparisons follow IEEE exactly on kinds:                  *)
(*   inf - inf = NaN, every comparison with NaN is false, -inf <= -inf.      *)
EXTENDS Integers

NInf == [k |-> "ninf", v |-> 0]
PInf == [k |-> "pinf", v |-> 0]
NaN  == [k |-> "nan",  v |-> 0]
Fin(n) == [k |-> "fin", v |-> n]

Kinds == {"ninf", "fin", "pinf", "nan"}
IsNaN(a) == a.k = "nan"
IsFin(a) == a.k = "fin"

Add(a, b) ==
  IF a.k = "nan" \/ b.k = "nan" THEN NaN
  ELSE IF a.k = "fin" /\ b.k = "fin" THEN Fin(a.v + b.v)
  ELSE IF a.k = "fin" THEN b
  ELSE IF b.k = "fin" THEN a
  ELSE IF a.k = b.k THEN a
  ELSE NaN

Neg(a) ==
  CASE a.k = "ninf" -> PInf
    [] a.k = "pinf" -> NInf
    [] a.k = "nan"  -> NaN
    [] OTHER        -> Fin(-a.v)

Sub(a, b) == Add(a, Neg(b))

Lt(a, b) ==
  /\ a.k # "nan" /\ b.k # "nan"
  /\ \/ (a.k = "ninf" /\ b.k # "ninf")
     \/ (b.k = "pinf" /\ a.k # "pinf")
     \/ (a.k = "fin" /\ b.k = "fin" /\ a.v < b.v)
Gt(a, b) == Lt(b, a)
Le(a, b) == a.k # "nan" /\ b.k # "nan" /\ ~Lt(b, a)
Ge(a, b) == Le(b, a)

(* Rust's f64::min / f32::min: a NaN operand is ignored. *)
Min(a, b) == IF a.k = "nan" THEN b ELSE IF b.k = "nan" THEN a
             ELSE IF Lt(b, a) THEN b ELSE a

(* A density is "good" (positive, not NaN) iff its log is finite or +inf. *)
GoodDensity(a) == a.k \in {"fin", "pinf"}
=============================================================================
