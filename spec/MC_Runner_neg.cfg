CONSTANTS
  Chains = {1, 2, 3}
  Workers = 2
  Variant = "generic"
  NCalls = 2
  MaxCollect = 2
  MaxDiscard = 2
  Bug = "late_store"
SPECIFICATION Spec
INVARIANTS Exact 
CHECK_DEADLOCK FALSE
