CONSTANTS
  MaxN = 3
  MaxD = 3
  Seeds = {0, 42}
SPECIFICATION Spec
INVARIANTS Shape RowMajor ConsumesExactly Prefix SeedSeparates
CHECK_DEADLOCK FALSE
