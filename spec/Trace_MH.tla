------------------------------ MODULE Trace_MH ------------------------------
(* Trace validation (impl -> spec) for Metropolis-Hastings over integer-weight *)
(* targets and table proposals.  Each "step" event carries the current state, *)
(* the candidate, the integer weights w(x), w(y), the proposal numerators      *)
(* qf = D q(y|x), qb = D q(x|y), the quantised acceptance draw                 *)
(* uq = floor(u 2^20) and the state after the step.                            *)
(*                                                                            *)
(* The rule of MH.tla, ln u < [ln wy + ln qb] - [ln wx + ln qf], is decided    *)
(* exactly over the integers (ln is monotone):  u wx qf < wy qb, with the IEEE *)
(* kinds for zero weights (ln 0 = -inf, -inf - -inf = NaN => reject).          *)
(* Rule U (DESIGN 3): the draw is only known up to its quantum, and the f32    *)
(* arithmetic of the implementation is only accurate to about one quantum, so  *)
(* within Margin quanta of the threshold either outcome is accepted.           *)
EXTENDS Integers, Sequences, Json, IOUtils, TLC, ExtReal

Rec == ndJsonDeserialize(IOEnv.TRACE)
Q == 1048576
Margin == 2

VARIABLES l, x
vars == <<l, x>>

Init == l = 1 /\ x = -1

\* kinds of the four logs
LogK(n) == IF n = 0 THEN NInf ELSE Fin(0)
RatioKind(e) == Sub(Add(LogK(e.wy), LogK(e.qb)), Add(LogK(e.wx), LogK(e.qf)))

MustAccept(e) ==
  LET r == RatioKind(e) IN
  \/ r.k = "pinf"
  \/ r.k = "fin" /\ (e.uq + 1 + Margin) * (e.wx * e.qf) <= (e.wy * e.qb) * Q
MustReject(e) ==
  LET r == RatioKind(e) IN
  \/ r.k \in {"nan", "ninf"}
  \/ r.k = "fin" /\ ~e.uz /\ (e.uq - Margin) * (e.wx * e.qf) >= (e.wy * e.qb) * Q

StartChain ==
  /\ l <= Len(Rec) /\ Rec[l].e = "init"
  /\ Rec[l].wx > 0
  /\ x' = Rec[l].x
  /\ l' = l + 1

StepEv ==
  /\ l <= Len(Rec) /\ Rec[l].e = "step"
  /\ LET e == Rec[l] IN
       /\ e.x = x
       /\ e.xn \in {e.x, e.y}
       /\ MustAccept(e) => e.xn = e.y
       /\ MustReject(e) => e.xn = e.x
       /\ e.intact            \* rejected: bit-identical; accepted: exactly the candidate
       /\ x' = e.xn
  /\ l' = l + 1

\* the caller repositions the chain (current_state is a public field): the chain is at the new state from now on
SetEv ==
  /\ l <= Len(Rec) /\ Rec[l].e = "set"
  /\ Rec[l].wx > 0
  /\ x' = Rec[l].x
  /\ l' = l + 1

Next == StartChain \/ StepEv \/ SetEv
Spec == Init /\ [][Next]_vars

\* C14 along the trace: the chain never sits on a zero-weight state
NeverZeroWeight ==
  (l > 1 /\ l <= Len(Rec) /\ Rec[l].e = "step") => Rec[l].wx > 0

TraceAccepted ==
  LET d == TLCGet("stats").diameter IN
  /\ PrintT(<<"TRACE_MATCHED", d - 1, Len(Rec)>>)
  /\ d - 1 = Len(Rec)
=============================================================================
