CONSTANTS
  C = 2
  P = 1
  L = 5
  Vals = {0, 1, 2}
SPECIFICATION Spec
INVARIANTS Sane LowerBound Emit
CHECK_DEADLOCK FALSE
