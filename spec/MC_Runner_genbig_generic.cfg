CONSTANTS
  Chains = {1}
  Workers = 1
  Variant = "generic"
  NCalls = 2
  MaxCollect = 3
  MaxDiscard = 3
  Bug = "none"
CONSTANT CallChoices <- BigGeneric
SPECIFICATION Spec
INVARIANTS Exact NoExtraStep LeftAtLast RowIsChain Continuation Emit
CHECK_DEADLOCK FALSE
