INIT Init
NEXT Next
INVARIANT Emit
CONSTRAINT Depth1
CHECK_DEADLOCK FALSE
