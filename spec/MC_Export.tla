------------------------------ MODULE MC_Export ------------------------------
EXTENDS Export, TLC, Json
BigQ == {<<6, 40, 8>>}
BigT == {<<6, 40, 8>>, <<5, 17, 7>>, <<1, 40, 1>>, <<6, 0, 8>>, <<0, 40, 8>>}
Emit == last.res # "none" =>
  PrintT(<<"REPLAY", ToJson([ep |-> last.ep, shape |-> last.shape, path |-> last.path, res |-> last.res,
      table |-> IF last.res = "ok" THEN fs[last.path] ELSE [header |-> "none"]])>>)
\* one save per behaviour is enough for replay (the file system only remembers the last table per path)
OneSave == last.res = "none" /\ Next
Spec1 == Init /\ [][OneSave]_vars
=============================================================================
