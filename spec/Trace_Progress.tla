---------------------------- MODULE Trace_Progress ----------------------------
(* Trace validation of the reporter of run_progress against Progress.tla.       *)
(* Events (global order = order in which the callbacks took the harness lock):  *)
(*   start(N, total)        a run_progress call begins                           *)
(*   last(c)                worker c entered its last loop iteration (logged by   *)
(*                          the harness's chain, BEFORE the final send)           *)
(*   sent(c)                worker c's final send returned (worker_sent hook)     *)
(*   iter(k, fin)           reporter loop top (reporter_iter hook)                *)
(*   book(k, fin, alen, nxt) end of the reporter's bookkeeping (reporter_book)    *)
(*   done                   run_progress returned                                 *)
(* Not observable: which final messages the drain of iteration k received.  TLC  *)
(* infers it: a message can have been received only after last(c) was logged and *)
(* must have been received if sent(c) was logged before iter(k).  Given the      *)
(* received set the bookkeeping is Progress!Book, and its result must equal what *)
(* the reporter logged.  (Periodic non-final messages do not influence the       *)
(* bookkeeping and are not logged.)                                              *)
EXTENDS Integers, Sequences, FiniteSets, Json, IOUtils, TLC, ProgressBook
Rec == ndJsonDeserialize(IOEnv.TRACE)
CONSTANTS MaxBars
VARIABLES l, N, Total, may, sent, must, recv, active, nextActive, nFinished, exited
vars == <<l, N, Total, may, sent, must, recv, active, nextActive, nFinished, exited>>
Min(a, b) == IF a < b THEN a ELSE b
Init == /\ l = 1 /\ N = 0 /\ Total = 1 /\ may = {} /\ sent = {} /\ must = {} /\ recv = {}
        /\ active = <<>> /\ nextActive = 1 /\ nFinished = 0 /\ exited = TRUE

Start == /\ l <= Len(Rec) /\ Rec[l].e = "start" /\ exited
         /\ N' = Rec[l].n /\ Total' = Rec[l].total
         /\ may' = {} /\ sent' = {} /\ must' = {} /\ recv' = {}
         /\ active' = [j \in 1..Min(Rec[l].n, MaxBars) |-> j] /\ nextActive' = Min(Rec[l].n, MaxBars) + 1
         /\ nFinished' = 0 /\ exited' = FALSE /\ l' = l + 1
Last == /\ l <= Len(Rec) /\ Rec[l].e = "last"
        /\ may' = may \cup {Rec[l].c}
        /\ UNCHANGED <<N, Total, sent, must, recv, active, nextActive, nFinished, exited>> /\ l' = l + 1
Sent == /\ l <= Len(Rec) /\ Rec[l].e = "sent"
        /\ Rec[l].c \in may
        /\ sent' = sent \cup {Rec[l].c}
        /\ UNCHANGED <<N, Total, may, must, recv, active, nextActive, nFinished, exited>> /\ l' = l + 1
Iter == /\ l <= Len(Rec) /\ Rec[l].e = "iter" /\ ~exited
        /\ Rec[l].fin = nFinished
        /\ must' = sent                        \* everything sent by now is drained in this iteration at the latest
        /\ UNCHANGED <<N, Total, may, sent, recv, active, nextActive, nFinished, exited>> /\ l' = l + 1
BookEv ==
  /\ l <= Len(Rec) /\ Rec[l].e = "book" /\ ~exited
  /\ \E D \in SUBSET (may \ recv) :
       /\ (must \ recv) \subseteq D
       /\ LET rc == recv \cup D
              recent == [c \in 1..N |-> IF c \in rc THEN Total ELSE 0]
              b == BookFn(active, nextActive, nFinished, recent, N, Total, TRUE)
          IN /\ b.fin = Rec[l].fin /\ Len(b.active) = Rec[l].alen /\ b.next = Rec[l].nxt + 1   \* code counts chains from 0
             /\ recv' = rc /\ active' = b.active /\ nextActive' = b.next /\ nFinished' = b.fin
             /\ exited' = (b.fin >= N)
  /\ UNCHANGED <<N, Total, may, sent, must>> /\ l' = l + 1
Done == /\ l <= Len(Rec) /\ Rec[l].e = "done"
        /\ exited /\ sent = 1..N /\ recv = 1..N     \* returned only after the reporter saw every final message
        /\ UNCHANGED <<N, Total, may, sent, must, recv, active, nextActive, nFinished, exited>> /\ l' = l + 1
Next == Start \/ Last \/ Sent \/ Iter \/ BookEv \/ Done
Spec == Init /\ [][Next]_vars

CountOnce == nFinished <= N
BarsBounded == Len(active) <= MaxBars
ASSUME TLCSet(1, 0)
\* longest matched prefix (the trace spec branches on D, so the diameter is not enough)
Progressed == TLCSet(1, IF TLCGet(1) < l THEN l ELSE TLCGet(1))
TraceAccepted ==
  /\ PrintT(<<"TRACE_MATCHED", TLCGet(1) - 1, Len(Rec)>>)
  /\ TLCGet(1) - 1 = Len(Rec)
=============================================================================
