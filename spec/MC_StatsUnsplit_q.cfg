CONSTANTS
  C = 2
  N = 5
  Vals = {0, 1, 2}
SPECIFICATION Spec
INVARIANTS Theorems Emit
CHECK_DEADLOCK FALSE
