CONSTANTS
  W = 8
  MaxChains = 2
  Steps = 1
  Derive = "wrapping"
  PropSeed = "perchain"
  HmcDraws = "own"
SPECIFICATION Spec
INVARIANTS Reproducible SameSeedSameOutput NoPanic SeedSensitive DistinctStreams
CHECK_DEADLOCK FALSE
