CONSTANTS
  C = 3
  P = 1
  L = 4
  Vals = {0, 1, 3}
SPECIFICATION Spec
INVARIANTS Sane LowerBound Emit
CHECK_DEADLOCK FALSE
