--------------------------- MODULE Gen_TrackersBig ---------------------------
(* Update histories with many chains and parameters (up to 16 chains, 8         *)
(* parameters), generated inside the specification by a 16-bit LCG; expected    *)
(* statistics from Trackers.tla.  Same REPLAY format as MC_Trackers.            *)
EXTENDS Trackers, TLC, Json
VARIABLE case
Lcg(s) == (s * 75 + 74) % 65537
RECURSIVE Draws(_, _)
Draws(k, s) == IF k = 0 THEN <<>> ELSE LET s2 == Lcg(s) IN <<s2 % 4>> \o Draws(k - 1, s2)
Cases == {[C |-> c, P |-> p, L |-> l, seed |-> sd] : c \in {2, 5, 8, 16}, p \in {1, 3, 8}, l \in {2, 7}, sd \in {11}}
Init == case = [C |-> 0]
Next == case.C = 0 /\ case' \in Cases
\* hist[round][chain][param]; chain c is shifted by (c % 3) so that chains disagree
Hist(c) == LET d == Draws(c.L * c.C * c.P, c.seed + c.C + 7 * c.P) IN
  [r \in 1..c.L |-> [ch \in 1..c.C |-> [k \in 1..c.P |-> d[((r - 1) * c.C + (ch - 1)) * c.P + k] + (ch % 3)]]]
RECURSIVE FeedAll(_, _, _)
FeedAll(ts, h, r) == IF r > Len(h) THEN ts ELSE FeedAll([c \in 1..Len(ts) |-> Feed(ts[c], h[r][c])], h, r + 1)
Emit == case.C > 0 =>
  LET h == Hist(case)
      ts == FeedAll([c \in 1..case.C |-> NewTracker(case.P, [k \in 1..case.P |-> 0])], h, 1)
  IN PrintT(<<"REPLAY", ToJson([hist |-> h, n |-> case.L,
       s |-> [c \in 1..case.C |-> ts[c].s], q |-> [c \in 1..case.C |-> ts[c].q],
       wn |-> [k \in 1..case.P |-> WNum(ts, k)],
       rn |-> [k \in 1..case.P |-> RhatNum(ts, k)], rd |-> [k \in 1..case.P |-> RhatDen(ts, k)]])>>)
=============================================================================
