CONSTANTS
  A = 2
  E = 2
  L = 1
  K = 0
  Dim = 2
  X0s <- X2i
  P0s <- P2i
  UClasses <- U
  MaxSteps = 1
SPECIFICATION Spec
INVARIANTS ExactLattice LeapfrogIsVerlet Reversible ZeroLeapfrogs SelectNoBlend Emit
CHECK_DEADLOCK FALSE
