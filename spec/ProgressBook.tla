------------------------------ MODULE ProgressBook ------------------------------
(* The reporter's bookkeeping block as a pure function of (shown bars, next chain  *)
(* to show, finished count, latest statistics), shared by Progress.tla and         *)
(* Trace_Progress.tla.  Bars are visited left to right; the bar of a chain whose   *)
(* latest statistics have n = total is given to chain `nxt` while one is left      *)
(* (recycle), otherwise it is removed.                                             *)
EXTENDS Integers, Sequences
RECURSIVE BookFrom(_, _, _, _, _, _, _, _)
BookFrom(j, act, nxt, fin, rec, n, total, recycle) ==
  IF j > Len(act) THEN [active |-> act, next |-> nxt, fin |-> fin]
  ELSE IF rec[act[j]] = total
       THEN IF nxt <= n /\ recycle
            THEN BookFrom(j + 1, [act EXCEPT ![j] = nxt], nxt + 1, fin + 1, rec, n, total, recycle)
            ELSE BookFrom(j + 1, [act EXCEPT ![j] = 0], nxt, fin + 1, rec, n, total, recycle)   \* 0 marks a bar to remove
       ELSE BookFrom(j + 1, act, nxt, fin, rec, n, total, recycle)
RECURSIVE Pick(_, _, _)
Pick(s, j, acc) == IF j > Len(s) THEN acc
                   ELSE IF s[j] # 0 THEN Pick(s, j + 1, Append(acc, s[j])) ELSE Pick(s, j + 1, acc)
Compact(s) == Pick(s, 1, <<>>)
BookFn(act, nxt, fin, rec, n, total, recycle) ==
  LET r == BookFrom(1, act, nxt, fin, rec, n, total, recycle) IN
  [active |-> Compact(r.active), next |-> r.next, fin |-> r.fin]
=============================================================================
