------------------------------- MODULE InitPos -------------------------------
(* Initial-position helpers (src/core.rs: init, init_det, init_with_seed).     *)
(* _init is modelled as the loop it is: one standard-normal draw per entry,     *)
(* rows outer, coordinates inner, all from ONE generator seeded once.  A draw   *)
(* is the token <<seed, k>> = "k-th standard normal of the stream of `seed`".   *)
EXTENDS Integers, Sequences
CONSTANTS MaxN, MaxD, Seeds
VARIABLES n, d, seed, pos, out, row
vars == <<n, d, seed, pos, out, row>>

Init == /\ n \in 0..MaxN /\ d \in 0..MaxD /\ seed \in Seeds
        /\ pos = 0 /\ out = <<>> /\ row = <<>>
Draw == /\ Len(out) < n /\ Len(row) < d
        /\ row' = Append(row, <<seed, pos>>) /\ pos' = pos + 1
        /\ UNCHANGED <<n, d, seed, out>>
EndRow == /\ Len(out) < n /\ Len(row) = d
          /\ out' = Append(out, row) /\ row' = <<>>
          /\ UNCHANGED <<n, d, seed, pos>>
Next == Draw \/ EndRow
Spec == Init /\ [][Next]_vars
Done == Len(out) = n

\* closed form of the result
Closed(nn, dd, s) == [i \in 1..nn |-> [j \in 1..dd |-> <<s, (i - 1) * dd + (j - 1)>>]]
Shape == Done => (Len(out) = n /\ \A i \in 1..n : Len(out[i]) = d)
RowMajor == Done => out = Closed(n, d, seed)
ConsumesExactly == Done => pos = n * d
\* the first rows of a larger request equal a smaller request (same d, same seed)
Prefix == \A n1 \in 0..MaxN, n2 \in 0..MaxN, dd \in 0..MaxD, s \in Seeds :
  n1 <= n2 => Closed(n1, dd, s) = SubSeq(Closed(n2, dd, s), 1, n1)
\* different seeds never share a draw token
SeedSeparates == \A s1 \in Seeds, s2 \in Seeds, i \in 0..3 : s1 # s2 => <<s1, i>> # <<s2, i>>
=============================================================================
