--------------------------------- MODULE HMC ---------------------------------
(* One row (chain) of the batched HMC step of src/hmc.rs, on a dyadic lattice.   *)
(*                                                                              *)
(* Target: log p(x) = -(A/2) |x|^2  (gradient -A x), step size eps = 2^-E, L     *)
(* leapfrog steps.  Every position / momentum is an integer numerator over the   *)
(* fixed denominator 2^S, S = K + (2LM+1)E + LM + 1 (M = steps explored), K the   *)
(* number of fractional bits of the inputs: with that S every quantity the        *)
(* integrator                                                                     *)
(* produces is exactly representable (invariant ExactLattice), and the energies  *)
(*      H = -log p + |p|^2/2 = (A |X|^2 + |P|^2) / 2^(2S+1)                      *)
(* are exact integers HN over 2^(2S+1).  The real implementation on the f64      *)
(* backend computes exactly the same numbers (<= 53 significant bits), so replay *)
(* compares bit for bit.                                                         *)
(*                                                                              *)
(* The actions follow the code: DrawMomentum, GradAtCurrent (the half-kick term  *)
(* eps/2 grad is computed at the CURRENT position at the start of every step --  *)
(* also after a rejection), Energy0, then L x (HalfKick, Drift, GradEval,        *)
(* HalfKick), Energy1, Accept (ln u <= H0 - H1), Select (proposal or the         *)
(* untouched previous position, never a blend).                                  *)
(*                                                                              *)
(* E and L are the values of the sampler's PUBLIC fields `step_size` and         *)
(* `n_leapfrog` at the moment the step is taken (assigning them is the only way  *)
(* to re-tune a sampler): both half-kicks and the drift use the same eps.  The   *)
(* replay therefore runs every second behaviour on a sampler constructed with    *)
(* other values (4 eps, L + 2) and re-tuned by assignment before its first step. *)
EXTENDS Integers, Sequences

CONSTANTS A, E, L, K, Dim,
          X0s, P0s,        \* inputs: sets of vectors of numerators over 2^K
          UClasses,        \* acceptance draws, see LnUDecision
          MaxSteps
S0 == K + (2 * L * MaxSteps + 1) * E + L * MaxSteps + 1
S == IF S0 < 6 THEN 6 ELSE S0
Up == 2 ^ (S - K)                     \* lifts an input numerator (over 2^K) to scale 2^S

VARIABLES x, p, carried, h0, h1, xold, phase, k, nsteps, hist
vars == <<x, p, carried, h0, h1, xold, phase, k, nsteps, hist>>

Vec(f(_), v) == [i \in 1..Len(v) |-> f(v[i])]
RECURSIVE SumSq(_, _)
SumSq(v, i) == IF i = 0 THEN 0 ELSE v[i] * v[i] + SumSq(v, i - 1)
\* numerator of H over 2^(2S+1)
HN(xx, pp) == A * SumSq(xx, Len(xx)) + SumSq(pp, Len(pp))
\* eps/2 * grad(x) = -A x / 2^(E+1)
HalfGrad(xx) == [i \in 1..Len(xx) |-> (-A * xx[i]) \div (2 ^ (E + 1))]
HalfGradExact(xx) == \A i \in 1..Len(xx) : (A * xx[i]) % (2 ^ (E + 1)) = 0

Init ==
  /\ x \in {[i \in 1..Dim |-> v[i] * Up] : v \in X0s}
  /\ p = [i \in 1..Dim |-> 0] /\ carried = [i \in 1..Dim |-> 0]
  /\ h0 = 0 /\ h1 = 0 /\ xold = x /\ phase = "idle" /\ k = 0 /\ nsteps = 0 /\ hist = <<>>

DrawMomentum(pv) ==
  /\ phase = "idle" /\ nsteps < MaxSteps
  /\ p' = [i \in 1..Dim |-> pv[i] * Up] /\ xold' = x
  /\ hist' = Append(hist, [p0 |-> pv, xstart |-> x])
  /\ phase' = "grad0" /\ UNCHANGED <<x, carried, h0, h1, k, nsteps>>
GradAtCurrent ==
  /\ phase = "grad0" /\ carried' = HalfGrad(x)
  /\ phase' = "energy0" /\ UNCHANGED <<x, p, h0, h1, xold, k, nsteps, hist>>
Energy0 ==
  /\ phase = "energy0" /\ h0' = HN(x, p) /\ k' = 0
  /\ phase' = IF L = 0 THEN "energy1" ELSE "kick1"
  /\ UNCHANGED <<x, p, carried, h1, xold, nsteps, hist>>
HalfKick1 ==
  /\ phase = "kick1" /\ p' = [i \in 1..Dim |-> p[i] + carried[i]]
  /\ phase' = "drift" /\ UNCHANGED <<x, carried, h0, h1, xold, k, nsteps, hist>>
Drift ==
  /\ phase = "drift" /\ x' = [i \in 1..Dim |-> x[i] + p[i] \div (2 ^ E)]
  /\ phase' = "grad" /\ UNCHANGED <<p, carried, h0, h1, xold, k, nsteps, hist>>
GradEval ==
  /\ phase = "grad" /\ carried' = HalfGrad(x)
  /\ phase' = "kick2" /\ UNCHANGED <<x, p, h0, h1, xold, k, nsteps, hist>>
HalfKick2 ==
  /\ phase = "kick2" /\ p' = [i \in 1..Dim |-> p[i] + carried[i]] /\ k' = k + 1
  /\ phase' = IF k + 1 = L THEN "energy1" ELSE "kick1"
  /\ UNCHANGED <<x, carried, h0, h1, xold, nsteps, hist>>
Energy1 ==
  /\ phase = "energy1" /\ h1' = HN(x, p)
  /\ phase' = "accept" /\ UNCHANGED <<x, p, carried, h0, xold, k, nsteps, hist>>

(* ln u <= H0 - H1 for the draw classes                                           *)
(*   0 : u = 0, ln u = -inf                -> always                               *)
(*   -1: u = 1 - ulp, ln u = -1e-16        -> iff H0 - H1 >= 0 (exact: the          *)
(*           difference is a multiple of 2^-(2S+1), far coarser than 1e-16)         *)
(*   j in 1..: u = 2^-j, ln u = -j ln 2, 0.693 < ln 2 < 0.694: decided with the     *)
(*           difference rounded down/up to 2^-10; "either" when inside the gap      *)
LnUDecision(u, dn) ==
  LET sh == 2 ^ (2 * S + 1 - 10)
      lo == dn \div sh                \* floor(delta * 2^10)  (TLC's \div floors)
      hi == lo + 1
  IN IF u = 0 THEN "acc"
     ELSE IF u = -1 THEN (IF dn >= 0 THEN "acc" ELSE "rej")
     ELSE IF lo * 1000 >= -693 * u * 1024 THEN "acc"
     ELSE IF hi * 1000 < -694 * u * 1024 THEN "rej"
     ELSE "either"

Accept(u) ==
  /\ phase = "accept"
  /\ LET d == LnUDecision(u, h0 - h1) IN
     /\ d # "either"                       \* rule U: undecidable draws are not generated
     /\ hist' = [hist EXCEPT ![Len(hist)] =
                   [p0 |-> hist[Len(hist)].p0, xstart |-> hist[Len(hist)].xstart, u |-> u, xprop |-> x, pprop |-> p, h0 |-> h0, h1 |-> h1,
                    acc |-> (d = "acc"), xnew |-> IF d = "acc" THEN x ELSE xold]]
     /\ x' = IF d = "acc" THEN x ELSE xold  \* Select: the proposal or the untouched old row
  /\ phase' = "idle" /\ nsteps' = nsteps + 1
  /\ UNCHANGED <<p, carried, h0, h1, xold, k>>

Next == (\E pv \in P0s : DrawMomentum(pv)) \/ GradAtCurrent \/ Energy0 \/ HalfKick1 \/ Drift \/ GradEval
        \/ HalfKick2 \/ Energy1 \/ (\E u \in UClasses : Accept(u))
Spec == Init /\ [][Next]_vars

(* ------------------------------- properties ------------------------------- *)
\* every division the integrator performs is exact at scale 2^S
ExactLattice ==
  /\ (phase \in {"grad0", "grad"} => HalfGradExact(x))
  /\ (phase = "drift" => \A i \in 1..Dim : p[i] % (2 ^ E) = 0)

\* the integrator as a function (kick-drift-kick with a fresh gradient at every step:
\* textbook velocity Verlet), used to state equivalence and reversibility
VStep(xx, pp) ==
  LET p1 == [i \in 1..Dim |-> pp[i] + HalfGrad(xx)[i]]
      x1 == [i \in 1..Dim |-> xx[i] + p1[i] \div (2 ^ E)]
      p2 == [i \in 1..Dim |-> p1[i] + HalfGrad(x1)[i]]
  IN <<x1, p2>>
RECURSIVE Verlet(_, _, _)
Verlet(xx, pp, n) == IF n = 0 THEN <<xx, pp>> ELSE LET s == VStep(xx, pp) IN Verlet(s[1], s[2], n - 1)
Negate(v) == [i \in 1..Len(v) |-> -v[i]]

\* the code-shaped integrator (carried half-kick term) IS velocity Verlet
LeapfrogIsVerlet ==
  phase = "accept" => <<x, p>> = Verlet(xold, [i \in 1..Dim |-> hist[Len(hist)].p0[i] * Up], L)
\* time reversibility, exactly: integrating from (x', -p') returns to (x, -p)
Reversible ==
  phase = "accept" =>
    LET back == Verlet(x, Negate(p), L) IN
    back[1] = xold /\ back[2] = Negate([i \in 1..Dim |-> hist[Len(hist)].p0[i] * Up])
\* L = 0 leaves the position where it was
ZeroLeapfrogs == (L = 0 /\ phase = "accept") => x = xold
\* after the step the row is the proposal or bit-for-bit the previous position
SelectNoBlend == \A j \in 1..Len(hist) : ("xnew" \in DOMAIN hist[j]) => hist[j].xnew = hist[j].xprop \/ ~hist[j].acc
=============================================================================
