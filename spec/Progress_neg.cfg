CONSTANTS
  N = 3
  MaxBars = 2
  Total = 2
  NDiscard = 1
  Crash = FALSE
  ReporterBug = "no_recycle"
  Slots = 0
  ReporterOnPool = FALSE
SPECIFICATION Spec
PROPERTY Termination
CHECK_DEADLOCK FALSE
