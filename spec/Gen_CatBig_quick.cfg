CONSTANTS
  K = 32
  Quick = TRUE
INIT Init
NEXT Next
INVARIANT Emit
CHECK_DEADLOCK FALSE
