CONSTANTS
  C = 2
  P = 2
  Means = {0, 1, 3}
  Vars = {1, 2}
  Ns = {2, 5, 100}
SPECIFICATION Spec
INVARIANTS LowerBound Emit
CHECK_DEADLOCK FALSE
