CONSTANTS
  A = 2
  E = 1
  L = 1
  K = 1
  Dim = 1
  X0s <- X1
  P0s <- P1
  UClasses <- U
  MaxSteps = 2
SPECIFICATION Spec
INVARIANTS ExactLattice LeapfrogIsVerlet Reversible ZeroLeapfrogs SelectNoBlend Emit
CHECK_DEADLOCK FALSE
