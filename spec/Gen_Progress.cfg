CONSTANTS
  N = 7
  MaxIter = 2
INIT Init
NEXT Next
INVARIANT Emit
CHECK_DEADLOCK FALSE
