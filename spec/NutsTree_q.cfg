CONSTANTS
  MaxDepth = 3
  WrongWeight = FALSE
  TrackWeights = TRUE
SPECIFICATION Spec
INVARIANTS NextStateAdmissible Extent CountIsSlice AlphaIsLastDoubling SubtreeShape UniformWithinSubtree
PROPERTY NeverFromStopped
CHECK_DEADLOCK FALSE
