------------------------------ MODULE MC_DualAvg ------------------------------
(* Phase machine of the adaptation over several run() calls, with the numeric     *)
(* content abstracted: the step size is a token that Adapt may set to any value   *)
(* and Freeze sets to the averaged iterate.  Checks the protocol-level claims of  *)
(* C04: adapt exactly while m <= n_discard, afterwards the step size equals the   *)
(* averaged iterate and never changes again within the run, the warm-up counter   *)
(* persists across calls.                                                         *)
EXTENDS Integers, Sequences
CONSTANTS MaxCalls, MaxCollect, MaxDiscard, Vals
VARIABLES m, nd, left, le, leb, calls, everFrozenInRun, leAtFreeze,
          k,      \* adapting transitions so far (iteration index of the dual averaging)
          mu      \* shrinkage point token: 0 = not yet set, otherwise the value derived from eps0
vars == <<m, nd, left, le, leb, calls, everFrozenInRun, leAtFreeze, k, mu>>
Init == m = 0 /\ nd = 0 /\ left = 0 /\ le \in Vals /\ leb = 0 /\ calls = 0 /\ everFrozenInRun = FALSE /\ leAtFreeze = 0 /\ k = 0 /\ mu = 0
\* run(nc, ndis): the NUTS loop makes nc + ndis - 1 transitions
Run(nc, ndis) ==
  /\ left = 0 /\ calls < MaxCalls
  /\ nd' = ndis /\ left' = nc + ndis - 1 /\ calls' = calls + 1 /\ everFrozenInRun' = FALSE
  /\ mu' = IF m = 0 THEN 10 + le ELSE mu          \* "ln(10 eps0)": set while the chain has made no transition
  /\ UNCHANGED <<m, le, leb, leAtFreeze, k>>
Adapt(x, y) ==
  /\ left > 0 /\ m + 1 <= nd
  /\ m' = m + 1 /\ le' = x /\ leb' = y /\ left' = left - 1 /\ k' = k + 1
  /\ UNCHANGED <<nd, calls, everFrozenInRun, leAtFreeze, mu>>
Freeze ==
  /\ left > 0 /\ m + 1 > nd
  /\ m' = m + 1 /\ le' = leb /\ leb' = leb /\ left' = left - 1
  /\ everFrozenInRun' = TRUE /\ leAtFreeze' = leb
  /\ UNCHANGED <<nd, calls, k, mu>>
Next == (\E nc \in 1..MaxCollect, ndis \in 0..MaxDiscard : Run(nc, ndis)) \/ (\E x, y \in Vals : Adapt(x, y)) \/ Freeze
Spec == Init /\ [][Next]_vars
\* once frozen in a run, the step size is the averaged iterate and stays put until the run ends
FrozenForever == everFrozenInRun => (le = leb /\ le = leAtFreeze)
\* adaptation never resumes within a run: after a Freeze step no Adapt step is enabled before the next Run
NoResume == [][everFrozenInRun => (m' = m \/ (le' = le /\ leb' = leb) \/ ~everFrozenInRun')]_vars
\* the warm-up counter is never reset
CounterPersists == [][m' >= m]_vars
\* the dual averaging has its own iteration count: it advances exactly on adapting transitions, also across calls
\* (a resumed warm-up continues it), and never exceeds the transition count
IterationIndex == k <= m /\ [][(k' = k + 1 /\ m' = m + 1 /\ m + 1 <= nd) \/ k' = k]_vars
\* the shrinkage point is fixed once the chain has moved
MuFixed == [][m > 0 => mu' = mu]_vars
=============================================================================
