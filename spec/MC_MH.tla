-------------------------------- MODULE MC_MH --------------------------------
(* Exhaustive instance of MH: two states, every combination of log-values in  *)
(* the four table slots a move 0 <-> 1 reads, every draw class.                *)
EXTENDS MH

MCLogVals == {NInf, PInf, NaN} \cup {Fin(1000 * k) : k \in -2..2}
MCUClass == -1..5

Init ==
  /\ lp \in [State -> LogVals]
  /\ lq \in {f \in [State \X State -> LogVals] :
               \A s \in State : f[<<s, s>>] = Fin(0)}
  /\ x \in State
  /\ GoodDensity(lp[x])
  /\ last = [from |-> x, y |-> x, u |-> 1, acc |-> FALSE]

Spec == Init /\ [][Next]_vars
=============================================================================
