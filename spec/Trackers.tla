------------------------------ MODULE Trackers ------------------------------
(* Streaming statistics of src/stats.rs: ChainTracker (one chain), the R-hat    *)
(* derived from several trackers (collect_rhat) and MultiChainTracker.          *)
(* A tracker is modelled by its exact sufficient statistics: count n, per-      *)
(* parameter sum S and sum of squares Q of the states it was fed, plus the      *)
(* previous state (for the acceptance indicator).  States are vectors of small  *)
(* integers.                                                                    *)
EXTENDS Integers, Sequences, Pow99

\* ---------- one tracker ----------
NewTracker(P, x0) == [n |-> 0, s |-> [k \in 1..P |-> 0], q |-> [k \in 1..P |-> 0], last |-> x0]
Feed(t, x) == [n |-> t.n + 1,
               s |-> [k \in 1..Len(x) |-> t.s[k] + x[k]],
               q |-> [k \in 1..Len(x) |-> t.q[k] + x[k] * x[k]],
               last |-> x]
Moved(t, x) == x # t.last           \* "state differs from previous state"

\* mean = MeanNum/n ; unbiased variance = VarNum / (n (n-1))
MeanNum(t, k) == t.s[k]
VarNum(t, k) == t.n * t.q[k] - t.s[k] * t.s[k]

(* Fixed point without overflow: floor(num/den * 4096) by long division (num,   *)
(* den up to 2^31 / 64).                                                        *)
Fx12(num, den) ==
  LET q0 == num \div den
      r0 == num % den
      q1 == (r0 * 64) \div den
      r1 == (r0 * 64) % den
      q2 == (r1 * 64) \div den
  IN q0 * 4096 + q1 * 64 + q2

\* ---------- classical R-hat^2 of C trackers with equal n, parameter k ----------
RECURSIVE SumTo(_, _)
SumTo(f, j) == IF j = 0 THEN 0 ELSE f[j] + SumTo(f, j - 1)
WNum(ts, k) == SumTo([c \in 1..Len(ts) |-> VarNum(ts[c], k)], Len(ts))
TSum(ts, k) == SumTo([c \in 1..Len(ts) |-> ts[c].s[k]], Len(ts))
BBNum(ts, k) == LET C == Len(ts) t == TSum(ts, k) IN
  SumTo([c \in 1..C |-> (C * ts[c].s[k] - t) * (C * ts[c].s[k] - t)], C)
\* R-hat^2 = RhatNum/RhatDen with W = mean unbiased variance, var+ = (n-1)/n W + B/n
RhatNum(ts, k) == LET C == Len(ts) n == ts[1].n IN (C * (C - 1) * WNum(ts, k) + BBNum(ts, k)) * (n - 1)
RhatDen(ts, k) == LET C == Len(ts) n == ts[1].n IN C * (C - 1) * n * WNum(ts, k)

\* ---------- acceptance-rate EMA (weight 0.01), units 2^-20 ----------
\* one indicator:  p' = 0.99 p + 0.01 ind   <=>   100 p' = 99 p + ind
EmaStepOk(p, p2, ind) ==
  LET d == 100 * p2 - 99 * p - (IF ind THEN 1048576 ELSE 0) IN d >= -256 /\ d <= 256
InUnit(p) == p >= 0 /\ p <= 1048576

(* C indicators folded in some order, k of them 1 (units 2^-15):               *)
(*   0.99^C p + 0.99^(C-k) (1 - 0.99^k)  <=  p'  <=  0.99^C p + (1 - 0.99^k)    *)
EmaFoldOk(p, p2, C, k) ==
  LET base_lo == (Pow99Lo[C + 1] * p) \div 32768
      base_hi == (Pow99Hi[C + 1] * p) \div 32768 + 1
      lo == base_lo + (Pow99Lo[C - k + 1] * (32768 - Pow99Hi[k + 1])) \div 32768
      hi == base_hi + (32768 - Pow99Lo[k + 1]) + 1
  IN p2 >= lo - (2 + C) /\ p2 <= hi + (2 + C)
=============================================================================
