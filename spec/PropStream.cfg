CONSTANTS
  SeedNames = {"a", "b"}
  MaxOps = 5
SPECIFICATION Spec
INVARIANTS SeedResetsAtAnyTime Emit
CHECK_DEADLOCK FALSE
