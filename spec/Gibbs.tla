-------------------------------- MODULE Gibbs --------------------------------
(* One Gibbs chain (src/gibbs.rs, GibbsMarkovChain::step).  A step (sweep) is  *)
(* Len(state) Refresh actions followed by EndStep: coordinate `next` is        *)
(* replaced by whatever the user's conditional returns when shown the *current* *)
(* state -- in which all coordinates refreshed earlier in the sweep already     *)
(* hold their new values.  Values are opaque tokens.                            *)
EXTENDS Integers, Sequences

VARIABLES state,   \* sequence of tokens, 1-based
          next,    \* coordinate the next Refresh will ask for (1..Len+1)
          calls    \* history of this sweep: <<index, state shown to the conditional>>
gvars == <<state, next, calls>>

GInit(s0) == state = s0 /\ next = 1 /\ calls = <<>>

Refresh(r) ==
  /\ next <= Len(state)
  /\ calls' = Append(calls, <<next, state>>)
  /\ state' = [state EXCEPT ![next] = r]
  /\ next' = next + 1

EndStep ==
  /\ next = Len(state) + 1
  /\ next' = 1
  /\ calls' = <<>>
  /\ UNCHANGED state

(* `current_state` is a public field: between sweeps the user may put the chain *)
(* anywhere; the next sweep shows the conditional THAT state.                    *)
Assign(s) ==
  /\ next = 1 /\ Len(s) = Len(state)
  /\ state' = s
  /\ UNCHANGED <<next, calls>>

(* every coordinate exactly once, in order, each time on the freshest state *)
CallOrder == \A k \in 1..Len(calls) : calls[k][1] = k
OnlyOwnCoordinate ==
  \A k \in 1..Len(calls) :
    LET shown == calls[k][2]
        after == IF k < Len(calls) THEN calls[k + 1][2] ELSE state
    IN \A c \in 1..Len(state) : c # k => after[c] = shown[c]
=============================================================================
