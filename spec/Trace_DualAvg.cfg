SPECIFICATION Spec
PROPERTY FrozenForever
POSTCONDITION TraceAccepted
CHECK_DEADLOCK FALSE
