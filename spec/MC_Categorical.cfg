CONSTANTS
  MaxLen = 4
  MaxW = 2
  K = 16
SPECIFICATION Spec
INVARIANTS Theorems Emit
CHECK_DEADLOCK FALSE
