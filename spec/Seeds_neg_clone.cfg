CONSTANTS
  W = 8
  MaxChains = 2
  Steps = 1
  Derive = "wrapping"
  PropSeed = "clone"
  HmcDraws = "own"
SPECIFICATION Spec
INVARIANTS DistinctStreams
CHECK_DEADLOCK FALSE
