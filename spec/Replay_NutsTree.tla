--------------------------- MODULE Replay_NutsTree ---------------------------
(* Specification -> implementation replay for build_tree (C03).                  *)
(*                                                                              *)
(* NutsTree.tla leaves the target's answers to an oracle.  Here the oracle is a  *)
(* SCRIPT that a real target can realise, so that every behaviour of the         *)
(* specification's stack machine for one build_tree(v, j) call can be replayed   *)
(* through the implementation's build_tree (verif_api wrapper):                  *)
(*                                                                              *)
(*  - state = (a, b) in R^2, momentum (1, p_b), step size 1.  The scripted        *)
(*    gradient has no a-component, so a advances by exactly 1 per leapfrog step:  *)
(*    the a-coordinate IS the trajectory offset of NutsTree.tla.                  *)
(*  - the script fixes, for every offset k, the doubled b-momentum P[k] (any      *)
(*    small integer) and the class of the point: 0 in the slice (joint -1),       *)
(*    1 in the slice (joint -1.5), 2 outside the slice (joint -50), 3 divergent   *)
(*    (joint -5000), 4 far ABOVE the slice level (joint +3000: in the slice, and   *)
(*    not a divergence -- the bound of 1000 is one-sided); log u = -2,            *)
(*    joint_0 = -1.                                                               *)
(*  - the gradient script G that realises P under the leapfrog map, and the       *)
(*    doubled b-positions B2, follow by exact integer recurrences:                *)
(*       forward   G[k+1] = P[k+1] - P[k] - G[k],   B2[k+1] = B2[k] + P[k] + G[k] *)
(*       backward  G[k-1] = P[k] - P[k-1] - G[k],   B2[k-1] = B2[k] - P[k] + G[k] *)
(*    (the leapfrog map is reversible, so the point at offset k is well defined). *)
(*  - no U-turn between offsets lo < hi  iff  both                                *)
(*       4 (hi - lo) + (B2[hi] - B2[lo]) P[lo] >= 0  and  ... P[hi] >= 0          *)
(*    -- exact in the implementation's f64 arithmetic as well (small dyadics), so *)
(*    that even ties are decided identically.                                     *)
(*                                                                              *)
(* Only the random choice between the two halves' candidates stays               *)
(* nondeterministic (constrained by NutsTree!Merge to positive probability).      *)
(* For every case TLC prints every reachable result (candidate, n', s',           *)
(* n_alpha, extent); the harness runs the real build_tree on the scripted target  *)
(* and demands that its result is one of them.                                    *)
EXTENDS NutsTree, TLC, Json

CONSTANTS MaxExh,      \* all scripts are enumerated for tree depths 0..MaxExh
          MaxJ,        \* sampled scripts for depths MaxExh+1..MaxJ
          NSample      \* sampled scripts per depth and direction
VARIABLE cs            \* the script: [v, j, p0, lev, pp]
rvars == <<vars, cs>>

Pow2(k) == 2 ^ k
Levels == 0..4
Moms == {-6, 0, 6}

Lcg(z) == (z * 75 + 74) % 65537
RECURSIVE Draws(_, _)
Draws(k, z) == IF k = 0 THEN <<>> ELSE LET z2 == Lcg(z) IN <<z2>> \o Draws(k - 1, z2)
\* sampled scripts favour points in the slice (so that deep trees are actually built)
SampleLev(x) == LET r == x % 16 IN IF r < 8 THEN 0 ELSE IF r < 9 THEN 4 ELSE IF r < 12 THEN 1 ELSE IF r < 15 THEN 2 ELSE 3
SampleMom(x) == LET r == (x \div 16) % 8 IN IF r < 5 THEN 0 ELSE IF r < 7 THEN 6 ELSE -6
Sampled(vv, jj, sd) ==
  LET d == Draws(Pow2(jj) + 1, sd * 131 + jj * 17 + (IF vv = 1 THEN 3 ELSE 5))
  IN [v |-> vv, j |-> jj, p0 |-> SampleMom(d[Pow2(jj) + 1]),
      lev |-> [i \in 1..Pow2(jj) |-> SampleLev(d[i])], pp |-> [i \in 1..Pow2(jj) |-> SampleMom(d[i])]]

ExhCases == UNION {[v : {vv}, j : {jj}, p0 : Moms, lev : [1..Pow2(jj) -> Levels], pp : [1..Pow2(jj) -> Moms]] :
                      vv \in {-1, 1}, jj \in 0..MaxExh}
SampleCases == {Sampled(vv, jj, sd) : vv \in {-1, 1}, jj \in (MaxExh + 1)..MaxJ, sd \in 1..NSample}

(* ----- the exact trajectory of a script; index i = |offset| ----- *)
Pd(c, i) == IF i = 0 THEN c.p0 ELSE c.pp[i]
RECURSIVE Gs(_, _)
Gs(c, i) == IF i = 0 THEN 0
            ELSE IF c.v = 1 THEN Pd(c, i) - Pd(c, i - 1) - Gs(c, i - 1)
                 ELSE Pd(c, i - 1) - Pd(c, i) - Gs(c, i - 1)
RECURSIVE B2s(_, _)
B2s(c, i) == IF i = 0 THEN 0
             ELSE IF c.v = 1 THEN B2s(c, i - 1) + Pd(c, i - 1) + Gs(c, i - 1)
                  ELSE B2s(c, i - 1) - Pd(c, i - 1) + Gs(c, i - 1)
AbsI(k) == IF k < 0 THEN -k ELSE k
InSlice(c, off) == c.lev[AbsI(off)] \in {0, 1, 4}
NotDiverged(c, off) == c.lev[AbsI(off)] # 3
NoUTurn(c, l, h) ==
  LET d == B2s(c, AbsI(h)) - B2s(c, AbsI(l)) IN
  /\ 4 * (h - l) + d * Pd(c, AbsI(l)) >= 0
  /\ 4 * (h - l) + d * Pd(c, AbsI(h)) >= 0

(* ----- one build_tree(v, j) call from offset 0, NutsTree's actions with the scripted oracle ----- *)
RInit ==
  /\ cs = [v |-> 0]
  /\ lo = 0 /\ hi = 0 /\ slice = {} /\ theta = 0
  /\ n = 1 /\ s = TRUE /\ j = 0 /\ v = 1
  /\ stk = <<>> /\ ret = NoRet /\ pc = "idle" /\ nalpha = 0 /\ leavesThis = 0
Pick ==
  /\ pc = "idle"
  /\ cs' \in (ExhCases \cup SampleCases)
  /\ j' = cs'.j /\ pc' = "dir"
  /\ UNCHANGED <<lo, hi, slice, theta, n, s, v, stk, ret, nalpha, leavesThis>>
Step ==
  /\ pc # "idle" /\ UNCHANGED cs
  /\ \/ (pc = "dir" /\ ChooseDir(cs.v))
     \/ Descend
     \/ (pc = "call" /\ Len(stk) > 0 /\ Top.j = 0
         /\ LET off == IF v = 1 THEN hi + 1 ELSE lo - 1 IN Leaf(InSlice(cs, off), NotDiverged(cs, off)))
     \/ AfterFirst
     \/ (pc = "ret" /\ Len(stk) > 0 /\ Top.ph = "second"
         /\ LET a == Top.first
                l == IF a.lo < ret.lo THEN a.lo ELSE ret.lo
                h == IF a.hi > ret.hi THEN a.hi ELSE ret.hi
            IN \E ch \in BOOLEAN : Merge(ch, NoUTurn(cs, l, h)))
RNext == Pick \/ Step
RSpec == RInit /\ [][RNext]_rvars

Finished == pc = "ret" /\ Len(stk) = 0
\* what the call returns, and the script tables the real target needs
Emit == Finished =>
  PrintT(<<"REPLAY", ToJson([v |-> cs.v, j |-> cs.j, p0 |-> cs.p0, lev |-> cs.lev, pp |-> cs.pp,
     g |-> [i \in 1..Pow2(cs.j) |-> Gs(cs, i)], b2 |-> [i \in 1..Pow2(cs.j) |-> B2s(cs, i)],
     cand |-> ret.cand, n |-> ret.n, s |-> ret.s, na |-> ret.na, lo |-> ret.lo, hi |-> ret.hi])>>)
\* sanity: the subtree a call returns is the contiguous block next to the start
Shape == Finished => (ret.na = ret.hi - ret.lo + 1 /\ ret.na <= Pow2(cs.j)
                      /\ (cs.v = 1 => ret.lo = 1) /\ (cs.v = -1 => ret.hi = -1)
                      /\ ret.n = Cardinality(slice) /\ (ret.n > 0 => ret.cand \in slice))
=============================================================================
