#!/usr/bin/env python3
"""Certified interval tables for the specification (exact integer arithmetic only).
  spec/DualAvgTables.tla : 20*sqrt(m) in units of 1/16 and m^-0.75 in units of 2^-12, m = 1..2048
  (spec/Pow99.tla is generated inline by the same method, see git history.)"""
from math import isqrt
import os

ROOT = os.path.dirname(os.path.dirname(os.path.abspath(__file__)))
N = 2048
s_lo, s_hi, k_lo, k_hi = [], [], [], []
for m in range(1, N + 1):
    # floor(320 * sqrt(m)) = isqrt(320^2 * m)
    a = isqrt(320 * 320 * m)
    s_lo.append(a)
    s_hi.append(a if a * a == 320 * 320 * m else a + 1)
    # x = floor(4096 * m^-0.75)  <=>  largest x with x^4 * m^3 <= 4096^4
    t = 4096 ** 4
    x = int(4096 * m ** -0.75)
    while (x + 1) ** 4 * m ** 3 <= t:
        x += 1
    while x ** 4 * m ** 3 > t:
        x -= 1
    k_lo.append(x)
    k_hi.append(x if x ** 4 * m ** 3 == t else x + 1)
fmt = lambda v: "<<" + ", ".join(map(str, v)) + ">>"
open(os.path.join(ROOT, "spec", "DualAvgTables.tla"), "w").write(
    "--------------------------- MODULE DualAvgTables ---------------------------\n"
    "(* Certified tables (exact integer arithmetic, bin/gen_tables.py), m = 1..%d:          *)\n"
    "(*   S20Lo[m] <= 16 * 20 * sqrt(m) <= S20Hi[m]      (sqrt(m)/gamma with gamma = 0.05)   *)\n"
    "(*   K75Lo[m] <= 4096 * m^(-0.75) <= K75Hi[m]       (kappa = 0.75)                      *)\n"
    "S20Lo == %s\nS20Hi == %s\nK75Lo == %s\nK75Hi == %s\n"
    "=============================================================================\n" % (N, fmt(s_lo), fmt(s_hi), fmt(k_lo), fmt(k_hi)))
print("wrote spec/DualAvgTables.tla")
