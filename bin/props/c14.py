"""C14 — no sampler ever moves to a zero-density, NaN-density or non-finite state (DESIGN 5, C14)."""
import json
import subprocess
import vlib


def run(ctx):
    thorough = ctx.tier == "thorough"
    ctx.assumptions += [
        "log-densities before/after every transition are evaluated by the harness's own copy of each target; kinds (-inf/finite/+inf/NaN) "
        "are what the specification reasons about",
        "acceptance draws equal to exactly 0 are excepted (as the property says); for NUTS the slice variable is never 0",
        "hangs are detected by a watchdog on the recording process (600 s for runs that take about a second)",
    ]
    r = ctx.tlc("MC_MH", workers=8, timeout=900)            # NeverToBadState over all IEEE-kind tables, incl. u = 0
    ctx.require_ok(r, "MC_MH")
    r = ctx.tlc("AcceptKinds", workers=4)
    ctx.require_ok(r, "AcceptKinds")
    # MH + NUTS
    tp = ctx.path("bad.ndjson")
    try:
        s = ctx.harness(["c14", "record", "--seed", ctx.seed, "--out", tp] + (["--thorough"] if thorough else []), timeout=600)[-1]
    except vlib.ToolError as e:
        if "timed out" in str(e):
            ctx.violation("hang MH/NUTS on bounded-support targets", "the recording run did not finish within 600 s: a sampler hangs on a bad candidate",
                          {"direction": "trace", "what": str(e)})
            return
        raise
    for p in s["panics"]:
        ctx.violation("panic %s" % p[:80], "a sampler panicked on a bounded-support / NaN-region target: %s" % p[:300], {"direction": "trace", "panic": p})
    lines = open(tp).read().splitlines()
    evs = [json.loads(x) for x in lines]
    ok, matched, run_ = ctx.validate_trace("Trace_BadState", tp, timeout=1800)
    ctx.cov["evaluations"] += len(evs)
    bad_cands = sum(1 for e in evs if e["e"] in ("mh", "nuts") and not e["moved"])
    ctx.cov["distinct_nontrivial"] += bad_cands
    ctx.cov["transitions_that_kept_the_state"] = bad_cands
    ctx.sample({"event": evs[1]})
    if ok:
        ctx.cov["traces_validated_against_impl"] += sum(1 for e in evs if e["e"] == "new")
    else:
        bad = evs[matched] if matched is not None and matched < len(evs) else None
        label = next((evs[i]["label"] for i in range(matched or 0, -1, -1) if evs[i]["e"] == "new"), "?")
        ctx.violation("bad-state %s" % label, "%s moved to a bad state or changed a rejected state: %s (%s)" % (label, json.dumps(bad), run_.violated or "no action matches"),
                      {"direction": "trace", "spec": "Trace_BadState", "event": bad, "trace": lines[max(0, (matched or 0) - 5):(matched or 0) + 1]})
    # NUTS start-up heuristic next to the boundary of a target whose gradient is NaN outside the support (sqrt of a negative
    # argument): 12 seeded chains, short watchdog -- "does not hang"
    tpp = ctx.path("bad_probe.ndjson")
    try:
        sp = ctx.harness(["c14", "probe", "--seed", ctx.seed, "--out", tpp], timeout=120)[-1]
    except vlib.ToolError as e:
        if "timed out" not in str(e):
            raise
        sp = None
        ctx.violation("hang NUTS start-up probe", "NUTSChain::run did not return within 120 s on one of: sum(ln sqrt(x) - x) started within one step of the "
                      "boundary; -|x| started at its cusp (finite density, NaN gradient); exp(-x) on x >= 0 started ON the boundary (28 short chains, "
                      "about two seconds in all): the sampler hangs where no step size gives an acceptable trial point",
                      {"direction": "trace", "what": str(e)})
    if sp is not None:
        for p in sp["panics"]:
            ctx.violation("panic %s" % p[:80], "NUTS panicked on the sqrt target: %s" % p[:300], {"direction": "trace", "panic": p})
        pl = open(tpp).read().splitlines()
        pev = [json.loads(x) for x in pl]
        okp, mp, runp = ctx.validate_trace("Trace_BadState", tpp, timeout=600)
        ctx.cov["evaluations"] += len(pev)
        ctx.cov["distinct_nontrivial"] += sum(1 for e in pev if e["e"] == "nuts" and not e["moved"])
        if okp:
            ctx.cov["traces_validated_against_impl"] += sum(1 for e in pev if e["e"] == "new")
        else:
            bad = pev[mp] if mp is not None and mp < len(pev) else None
            label = next((pev[i]["label"] for i in range(mp or 0, -1, -1) if pev[i]["e"] == "new"), "?")
            ctx.violation("bad-state %s" % label, "%s moved to a bad state or changed a rejected state: %s (%s)" % (label, json.dumps(bad), runp.violated or "no action matches"),
                          {"direction": "trace", "spec": "Trace_BadState", "event": bad, "trace": pl[max(0, (mp or 0) - 5):(mp or 0) + 1]})
    # HMC
    tph = ctx.path("bad_hmc.ndjson")
    try:
        sh = ctx.harness(["c02", "record", "--c14", "--seed", ctx.seed, "--out", tph] + (["--thorough"] if thorough else []), timeout=600)[-1]
    except vlib.ToolError as e:
        if "timed out" in str(e):
            ctx.violation("hang HMC on half-line target", "the HMC recording run did not finish within 600 s", {"direction": "trace", "what": str(e)})
            return
        raise
    hl = open(tph).read().splitlines()
    hev = [json.loads(x) for x in hl]
    okh, mh, runh = ctx.validate_trace("Trace_HMC", tph, timeout=1800)
    ctx.cov["evaluations"] += len(hev)
    rej_bad = sum(1 for e in hev if e["e"] == "row" and e["delta"]["k"] in ("nan", "ninf"))
    ctx.cov["hmc_rows_rejecting_bad_proposals"] = rej_bad
    ctx.cov["distinct_nontrivial"] += rej_bad
    for e in hev:
        if e["e"] == "panic":
            ctx.violation("panic HMC %s" % e["label"], "HMC panicked: %s" % e["msg"][:300], {"direction": "trace", "event": e})
    if okh:
        ctx.cov["traces_validated_against_impl"] += sum(1 for e in hev if e["e"] == "new")
    elif not any(e["e"] == "panic" for e in hev):
        bad = hev[mh] if mh is not None and mh < len(hev) else None
        ctx.violation("bad-state HMC %s" % (bad or {}).get("label"), "HMC row event violates HMC.tla / the bad-state invariant: %s" % json.dumps(bad)[:400],
                      {"direction": "trace", "spec": "Trace_HMC", "event": bad})
    # binding self-test
    i = next(i for i, e in enumerate(evs) if e["e"] == "mh" and e["moved"])
    c0 = max(j for j in range(i + 1) if evs[j]["e"] == "new")
    bad = json.loads(json.dumps(evs[c0:i + 1]))
    bad[-1]["lp_new"] = {"k": "ninf", "v": 0}
    okc, _, _ = ctx.validate_trace("Trace_BadState", ctx.write_ndjson("bad_c.ndjson", bad))
    ctx.selftest("trace: a move onto a zero-density state", not okc)
    ctx.cov["rule"] = ("MH.tla NeverToBadState over all 8^4 IEEE-kind tables and draw classes; AcceptKinds.tla: HMC accept rule and NUTS slice/divergence tests over "
                       "all kinds; traces: MH (library and 'wild' proposals producing inf/NaN) on half-line, box and sqrt targets in 1 and 3 dims (f32/f64), HMC "
                       "with step sizes 0.3 .. 1e300 on the half-line, NUTS on NaN-region and divergent targets incl. overflowing step size, and with the start-up heuristic next to the boundary of a NaN-gradient (sqrt) target, at a cusp with NaN gradient and on the boundary of the support; "
                       "non-trivial = transitions whose candidate was refused")
    ctx.cov["exhaustive"] = False


def replay(ctx, path):
    raise vlib.ToolError("re-run: python3 bin/check C14 --tier quick (traces are re-recorded from the current tree)")
