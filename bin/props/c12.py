"""C12 — effective sample size (DESIGN 5, C12)."""
from props import stats_common as sc


def run(ctx):
    thorough = ctx.tier == "thorough"
    ctx.assumptions += [
        "sample values are integers; expected ESS = m n Vn / (2 Out - Vn) from exact integers computed by TLC",
        "rule U: arrays where a visited Geyer pair is within 2^-12 var+ of zero are skipped for the ESS value (f32 may cut either side)",
        "f32/FFT tolerance 2^-14 relative on ESS (4x the R-hat tolerance), multiplied by the condition number max(1, |ESS| / (m n)) = 1/|tau| "
        "(tau close to zero magnifies the rounding of the autocorrelations: ESS of 1092 for 12 draws)",
        "'about N(1-phi)/(1+phi)' / 'about N for independent draws' are asymptotic and not asserted; the definition is",
    ]
    sc.run_small(ctx, ["t1", "t3", "t4", "q4"] if thorough else ["q2", "q3", "q4"], "ess")
    sc.run_big(ctx, "ess")
    ctx.cov["rule"] = ("every C x N integer array in the configured bounds x 4 embeddings on the brute-force path, plus "
                       "spec-generated binary Markov / block chains with half lengths 100,101,128,129,200,250,500 on both sides of the "
                       "FFT switch; non-trivial = defined, non-fragile arrays with at least one positive Geyer pair")
    ctx.cov["exhaustive"] = True


def replay(ctx, path):
    sc.replay(ctx, path, "ess")
