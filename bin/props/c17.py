"""C17 — CSV / Arrow / Parquet export (DESIGN 5, C17)."""
import json
import os
import shutil
import vlib


def run(ctx):
    thorough = ctx.tier == "thorough"
    ctx.assumptions += [
        "the specification decides layout: header/schema, row count, the label pair of every row in the documented axis order, "
        "which token sits in each dim_j, and Ok/Err; values are opaque tokens",
        "the specification's array is a function of the index triple: the array entry points are called with the same logical array in "
        "five memory layouts (row-major, column-major, permuted and reversed axes, a strided non-contiguous view) and must write the same file",
        "decimal fidelity (CSV) and widening to f64 (Arrow/Parquet) are checked by the harness as token identity after reading the "
        "file back with the csv / arrow / parquet crates' own readers (NaN compared as NaN)",
        "an Err on a writable path (an input the entry point cannot represent) is recorded, not counted as a violation: the "
        "property constrains reported successes and unwritable paths",
    ]
    g = ctx.tlc("MC_Export", cfg="MC_Export_thorough.cfg" if thorough else "MC_Export.cfg", workers=4, timeout=1800)
    ctx.require_ok(g, "MC_Export")
    cases = g.tagged("REPLAY")
    if len(cases) < 500:
        raise vlib.ToolError("MC_Export produced %d cases" % len(cases))
    d = ctx.path("files")
    res = ctx.harness(["c17", "replay", ctx.write_ndjson("export.ndjson", cases), "--dir", d], timeout=1800)[-1]
    shutil.rmtree(d, ignore_errors=True)
    ctx.cov["evaluations"] += res["evaluations"]
    ctx.cov["traces_validated_against_impl"] += len(cases)
    ctx.cov["distinct_nontrivial"] += sum(1 for c in cases if c["res"] == "ok" and min(c["shape"]) >= 2)
    ctx.cov["files_read_back"] = res["read_back"]
    ctx.cov["accepted_errs_on_writable_path"] = res["skipped"]
    ctx.sample({"case": next(c for c in cases if c["res"] == "ok" and c["shape"] == [2, 2, 1] and c["ep"] == "parquet_tensor")})
    for m in res["bad"]:
        ctx.violation("export %s shape=%s path=%s %s" % (m["ep"], m["shape"], m["path"], m["variant"]), m["why"],
                      {"direction": "replay", "spec": "MC_Export", "mismatch": m})
    c = json.loads(json.dumps(next(c for c in cases if c["res"] == "ok" and c["shape"] == [2, 3, 2] and c["ep"] == "csv")))
    c["table"]["rows"][1]["l1"], c["table"]["rows"][1]["l2"] = c["table"]["rows"][1]["l2"], c["table"]["rows"][1]["l1"]
    d2 = ctx.path("files2")
    rs = ctx.harness(["c17", "replay", ctx.write_ndjson("export_self.ndjson", [c]), "--dir", d2])[-1]
    shutil.rmtree(d2, ignore_errors=True)
    ctx.selftest("replay: chain/observation labels of one expected row swapped", len(rs["bad"]) > 0)
    ctx.cov["rule"] = ("every (entry point, shape, path kind) in the bounds incl. all zero extents and a few larger shapes (TLC) x element types "
                       "f32/f64/i32/usize where accepted x five memory layouts of the array x tensor backends; tokens bound to subnormals, extremes, -0.0, NaN, +-inf; "
                       "non-trivial = successful saves with all extents >= 2")
    ctx.cov["exhaustive"] = True


def replay(ctx, path):
    raise vlib.ToolError("re-run: python3 bin/check C17 --tier quick (deterministic)")
