"""C09 — run(): shape, chain order, burn-in discard, continuation (DESIGN 5, C09)."""
import json
import vlib


def run(ctx):
    thorough = ctx.tier == "thorough"
    ctx.assumptions += [
        "a chain's state is abstracted to the number of transitions it has made; on real samplers 'the state after t transitions' "
        "is obtained from a shadow clone stepped manually (MH, Gibbs: pub chains, deterministic given the cloned generators) or "
        "from the per-transition hook events hmc_end / nuts_end (HMC, NUTSChain)",
        "the multi-chain NUTS runner is compared with clones of its own chains (verif_chains hook) run individually",
        "sessions (Session.tla): every returned cell carries a token <<kind, seed, chain, transitions, [NUTS: call history], [HMC: batch size]>>; "
        "the harness requires equal tokens to be bit-equal values across all executed sessions (determinism, run = run_progress, continuation, chain order at once)",
    ]
    suffix = "t" if thorough else "q"
    for v, w in (("generic", 8), ("nuts", 8), ("hmc", 2)):
        r = ctx.tlc("MC_Runner", cfg="MC_Runner_%s_%s.cfg" % (v, suffix), workers=w, timeout=3000)
        ctx.require_ok(r, "MC_Runner_%s_%s" % (v, suffix))
    ctx.tlc("MC_Runner", cfg="MC_Runner_neg.cfg", workers=4, expect_violation="Exact")
    # spec -> impl
    n_cases = 0
    for v in ("generic", "hmc", "nuts"):
        g = ctx.tlc("MC_Runner", cfg="MC_Runner_gen_%s.cfg" % v, workers=4, timeout=900, coverage=False)
        ctx.require_ok(g, "MC_Runner_gen_" + v)
        cases = g.tagged("REPLAY")
        if len(cases) < 100:
            raise vlib.ToolError("MC_Runner_gen_%s: %d cases" % (v, len(cases)))
        n_cases += len(cases)
        heavy = 1 if thorough else (5 if v == "generic" else 7)
        res = ctx.harness(["c09", "replay", ctx.write_ndjson("run_%s.ndjson" % v, cases), "--heavy-every", heavy], timeout=3000)[-1]
        ctx.cov["evaluations"] += res["evaluations"]
        ctx.cov["traces_validated_against_impl"] += len(cases)
        ctx.cov["distinct_nontrivial"] += sum(1 for c in cases if all(x[0] >= 1 for x in c["calls"]) and any(x[1] >= 1 for x in c["calls"]))
        ctx.sample({"call_history": next(c for c in cases if c["calls"][0] == [2, 1] and c["calls"][1][0] == 2)})
        for m in res["bad"]:
            ctx.violation("run %s calls=%s %s" % (m["variant"], m["calls"], m["sampler"]), m["why"],
                          {"direction": "replay", "spec": "MC_Runner_gen_" + v, "mismatch": m})
        if v == "generic":
            c = json.loads(json.dumps(next(c for c in cases if c["calls"][0] == [2, 1])))
            c["results"][0] = [x + 1 for x in c["results"][0]]
            rs = ctx.harness(["c09", "replay", ctx.write_ndjson("run_self.ndjson", [c])])[-1]
            ctx.selftest("replay: expected transition counts of the first call shifted by one", len(rs["bad"]) > 0)
    # large calls (hundreds / a thousand rows or burn-in transitions: beyond typical block and buffer thresholds)
    for v in ("generic", "hmc"):
        g = ctx.tlc("MC_Runner", cfg="MC_Runner_genbig_%s.cfg" % v, workers=4, timeout=900, coverage=False)
        ctx.require_ok(g, "MC_Runner_genbig_" + v)
        cases = g.tagged("REPLAY")
        if len(cases) < 4:
            raise vlib.ToolError("MC_Runner_genbig_%s: %d cases" % (v, len(cases)))
        n_cases += len(cases)
        res = ctx.harness(["c09", "replay", ctx.write_ndjson("runbig_%s.ndjson" % v, cases), "--heavy-every", 1 if thorough else 3], timeout=3000)[-1]
        ctx.cov["evaluations"] += res["evaluations"]
        ctx.cov["traces_validated_against_impl"] += len(cases)
        ctx.cov["distinct_nontrivial"] += len(cases)
        for m in res["bad"]:
            ctx.violation("run %s calls=%s %s" % (m["variant"], m["calls"], m["sampler"]), m["why"],
                          {"direction": "replay", "spec": "MC_Runner_genbig_" + v, "mismatch": m})
    # impl -> spec: real rayon interleavings
    ok_all = 0
    for threads in ((1, 2, 4, 16) if thorough else (2, 4)):
        tp = ctx.path("runner_trace_%d.ndjson" % threads)
        s = ctx.harness(["c09", "record", "--seed", ctx.seed + threads, "--runs", 12 if thorough else 5, "--out", tp],
                        env={"RAYON_NUM_THREADS": threads})[-1]
        ok, matched, run_ = ctx.validate_trace("Trace_Runner", tp, timeout=900)
        lines = open(tp).read().splitlines()
        ctx.cov["evaluations"] += s["events"]
        ctx.cov["distinct_nontrivial"] += sum(1 for x in lines if '"step"' in x)
        if ok:
            ctx.cov["traces_validated_against_impl"] += sum(1 for x in lines if '"call"' in x)
            ok_all += 1
        else:
            bad = json.loads(lines[matched]) if matched is not None and matched < len(lines) else None
            ctx.violation("runner-trace threads=%d %s" % (threads, json.dumps(bad, sort_keys=True)[:200]),
                          "recorded run of counting chains is not a behaviour of Runner.tla",
                          {"direction": "trace", "spec": "Trace_Runner", "first_unmatched_index": matched, "event": bad,
                           "trace": lines[: (matched or 0) + 1]})
    # whole sessions (Session.tla): construct, seed, run / run_progress calls, export -- the token -> value map over
    # all sessions must be a function (equal abstract states are bit-equal values)
    import random as _r
    g = ctx.tlc("MC_Session", workers=4, timeout=900)
    ctx.require_ok(g, "MC_Session")
    sess = [x for x in g.tagged("REPLAY") if len(x["calls"]) == 2
            and all((not c["progress"]) or c["nc"] >= 4 for c in x["calls"])
            and (x["kind"] != "NUTS" or all(c["nc"] >= 1 for c in x["calls"]))]
    rnd = _r.Random(ctx.seed)
    with_files = [x for x in sess if x["files"]]
    pick = rnd.sample(sess, 700 if thorough else 80) + rnd.sample(with_files, 60 if thorough else 12)
    d = ctx.path("session_files")
    res = ctx.harness(["session", "replay", ctx.write_ndjson("sessions.ndjson", pick), "--dir", d], timeout=3000)[-1]
    ctx.cov["evaluations"] += res["evaluations"]
    ctx.cov["traces_validated_against_impl"] += len(pick)
    ctx.cov["session_cells_shared_between_sessions"] = res["cells_shared_between_sessions"]
    ctx.sample({"session": {k: pick[0][k] for k in ("kind", "n", "seed")}, "calls": [{k: c[k] for k in ("nc", "nd", "progress")} for c in pick[0]["calls"]]})
    for m in res["bad"]:
        ctx.violation("session %s" % m["session"], "%s%s" % (m["why"], (" (other session: %s)" % m["other_session"]) if "other_session" in m else ""),
                      {"direction": "replay", "spec": "MC_Session", "mismatch": m})
    lines = open(ctx.path("runner_trace_2.ndjson")).read().splitlines()
    evs = [json.loads(x) for x in lines]
    j = next(i for i, e in enumerate(evs) if e["e"] == "ret" and len(e["out"]) >= 2 and len(e["out"][0]) >= 1)
    evs[j]["out"][0], evs[j]["out"][1] = evs[j]["out"][1], evs[j]["out"][0]
    evs[j]["out"][0][0] += 1
    okc, _, _ = ctx.validate_trace("Trace_Runner", ctx.write_ndjson("runner_c.ndjson", evs[: j + 1]))
    ctx.selftest("trace: returned array with a perturbed row", not okc)
    ctx.sample({"trace_events": [json.loads(x) for x in lines[:3]]})
    ctx.cov["rule"] = ("Runner.tla model-checked for all interleavings of <=3 chains on 2 workers and all 2-call histories in the bounds (3 loop variants) plus 2-call histories of large calls (257..1025 rows, up to 1030 burn-in transitions); "
                       "replay: every call history (TLC) on counting chains of 4 element types with 1..32 chains and on MH, Gibbs, HMC, NUTSChain, NUTS; "
                       "trace: recorded step events of counting chains under rayon pools of several sizes; non-trivial = histories with burn-in")
    ctx.cov["exhaustive"] = True


def replay(ctx, path):
    body = json.load(open(path))
    if body.get("direction") == "trace":
        rows = [json.loads(x) for x in body["trace"]]
        k = max(i for i, e in enumerate(rows) if e["e"] == "new")
        ok, _, _ = ctx.validate_trace("Trace_Runner", ctx.write_ndjson("t.ndjson", rows[k:]))
        if not ok:
            ctx.violation(body["key"], body["what"], body)
    else:
        raise vlib.ToolError("re-run: python3 bin/check C09 --tier quick (deterministic)")
