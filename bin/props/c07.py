"""C07 — same seed, same output (DESIGN 5, C07)."""
import json
import random
import subprocess
from concurrent.futures import ThreadPoolExecutor
import vlib


def run_scenario(sc, timeout=90):
    arg = json.dumps(dict({k: sc[k] for k in ("kind", "n", "seed", "progress", "second", "concurrent")}, pre=bool(sc.get("pre", False))))
    import os
    env = dict(os.environ, RAYON_NUM_THREADS=str(sc["threads"]), RUST_BACKTRACE="0")
    try:
        r = subprocess.run([vlib.BIN, "c07", "scenario", arg], stdout=subprocess.PIPE, stderr=subprocess.DEVNULL,
                           text=True, timeout=timeout, env=env, preexec_fn=vlib.limit_memory)
    except subprocess.TimeoutExpired:
        return {"hash": None, "all": [], "panic": "timeout (%d s)" % timeout}
    for line in r.stdout.splitlines():
        if line.startswith("{") and '"summary"' in line:
            return json.loads(line)
    return {"hash": None, "all": [], "panic": "child exited %d without a result" % r.returncode}


def run(ctx):
    thorough = ctx.tier == "thorough"
    ctx.assumptions += [
        "64-bit seeds are modelled modulo W = 8 / 16; the classes {0,1,2,W-2,W-1} stand for {0,1,42,u64::MAX-1,u64::MAX}",
        "the harness is built with overflow checks on (what `cargo run`/`cargo test` give a user): seed arithmetic that wraps panics there",
        "each scenario runs in its own process (rayon's pool size is per process); output = all bits of the returned sample, hashed",
        "NUTS run_progress is a class of its own (one-draw offset, see C10); Gibbs output does not depend on the seed "
        "(the library draws nothing itself) and is exempt from 'different seeds differ'",
        "the seeded initialisers are covered by C18",
    ]
    r = ctx.tlc("Seeds", cfg="Seeds_req_t.cfg" if thorough else "Seeds_req.cfg", workers=8, timeout=3000)
    ctx.require_ok(r, "Seeds (required behaviour)")
    ctx.tlc("Seeds", cfg="Seeds_neg_checked.cfg", workers=4, expect_violation="NoPanic")
    ctx.tlc("Seeds", cfg="Seeds_neg_global.cfg", workers=4, expect_violation="SameSeedSameOutput")
    g = ctx.tlc("Gen_Seeds", workers=2, coverage=False)
    ctx.require_ok(g, "Gen_Seeds")
    allsc = g.tagged("REPLAY")
    rnd = random.Random(ctx.seed)
    ns = (1, 2, 3, 5) if thorough else (2, 3)
    ns = ns + (600, 40)
    base = [s for s in allsc if s["n"] in ns and s["threads"] == 1 and s["concurrent"] == "none" and not s["progress"] and not s["second"]]
    # (includes the scenarios with pre = TRUE: the sampler is used before it is seeded -- same closed form, see Gen_Seeds)
    # every large-batch HMC class also under a second pool size
    base += [s for s in allsc if s["n"] == 600 and s["threads"] == 4 and not s["progress"] and not s["second"]]
    # 40 chains of the generic runner under every pool size (rows must stay in chain order whatever the completion order)
    base += [s for s in allsc if s["n"] == 40 and s["threads"] != 1 and not s["progress"] and not s["second"] and s["seed"] in ("42", "18446744073709551615")]
    # NUTS (pairs of chains share a start position) under the largest pool as well: nothing may depend on which chain runs first
    base += [s for s in allsc if s["kind"] == "NUTS" and s["n"] in ns and s["threads"] == 16 and s["concurrent"] == "none" and not s["progress"] and not s["second"]]
    # NUTS chains on the rayon pool + a non-pool thread doing autodiff with a matmul target can deadlock
    # (see the dedicated probe below); keep that combination out of the sampled scenarios
    hazard = lambda s: s["kind"] == "NUTS" and s["concurrent"] == "hmc" and not s["progress"]
    rest = [s for s in allsc if s["n"] in ns and s not in base and not hazard(s)]
    picked = base + rnd.sample(rest, 500 if thorough else 70)
    # make sure every seed class meets every feature at least once in quick mode
    with ThreadPoolExecutor(max_workers=6) as ex:
        results = list(ex.map(run_scenario, picked))
    rows = []
    for sc, res in zip(picked, results):
        cls = "nuts-progress" if (sc["kind"] == "NUTS" and sc["progress"]) else "plain"
        hashes = res["all"] if res["all"] else [res["hash"]]
        for h in hashes:
            rows.append({"e": "run", "kind": sc["kind"], "n": sc["n"], "expect": sc["expect"], "cls": cls, "seed": sc["seed"],
                         "threads": sc["threads"], "concurrent": sc["concurrent"], "progress": sc["progress"], "second": sc["second"], "pre": bool(sc.get("pre", False)),
                         "hash": h or "none", "panic": res["panic"] or "none"})
    ctx.cov["evaluations"] += len(rows)
    ctx.cov["distinct_nontrivial"] += len({(r_["kind"], r_["n"], r_["expect"], r_["cls"]) for r_ in rows})
    ctx.sample({"scenario_result": rows[len(rows) // 2]})
    # TLC decides: group by violated scenario so that every distinct failure is reported
    remaining = rows
    guard = 0
    while remaining and guard < 40:
        guard += 1
        tp = ctx.write_ndjson("seeds_trace_%d.ndjson" % guard, remaining)
        ok, matched, run_ = ctx.validate_trace("Trace_Seeds", tp, timeout=600)
        if ok:
            ctx.cov["traces_validated_against_impl"] += len(remaining)
            break
        bad = remaining[matched]
        if bad["panic"] != "none":
            key = "seed-panic %s seed=%s n=%d: %s" % (bad["kind"], bad["seed"], bad["n"], bad["panic"][:60])
            what = "%s with seed %s and %d chains panicked: %s" % (bad["kind"], bad["seed"], bad["n"], bad["panic"][:120])
            drop = lambda r_: r_["kind"] == bad["kind"] and r_["seed"] == bad["seed"] and r_["panic"] != "none"
        else:
            key = "not-reproducible %s n=%d" % (bad["kind"], bad["n"])
            what = ("%s, %d chains, seed %s (threads=%s concurrent=%s progress=%s second=%s) gave output %s, which contradicts an earlier "
                    "scenario with the same/different stream description" % (bad["kind"], bad["n"], bad["seed"], bad["threads"], bad["concurrent"],
                                                                              bad["progress"], bad["second"], bad["hash"]))
            drop = lambda r_: r_["kind"] == bad["kind"]
        ctx.violation(key, what, {"direction": "trace", "spec": "Trace_Seeds", "event": bad, "trace_prefix": remaining[: matched + 1][-40:]})
        remaining = [r_ for r_ in remaining if not drop(r_)]
    # dedicated probe of the concurrency hazard: NUTS::run (chains on rayon workers, autodiff inside) while
    # ordinary threads run HMC with a matmul target.  burn-autodiff's global graph lock is held during
    # backward(), burn-ndarray's matmul then waits for a rayon worker, and the rayon workers wait for the lock.
    probe = {"kind": "NUTS", "n": 3, "seed": "1", "progress": False, "second": False, "concurrent": "hmc", "threads": 2}
    hung = 0
    for _ in range(6 if ctx.tier == "thorough" else 4):
        res = run_scenario(probe, timeout=25)
        ctx.cov["evaluations"] += 1
        if res["panic"] and res["panic"].startswith("timeout"):
            hung += 1
            break
    ctx.cov["concurrency_probe"] = {"scenario": probe, "hung": hung}
    if hung:
        ctx.violation("concurrent-deadlock NUTS::run + HMC thread",
                      "NUTS::run (3 chains, 2 rayon threads) never returns while two ordinary threads run HMC with a matmul target: "
                      "rayon workers spin on burn-autodiff's graph lock, its holder waits in burn-ndarray matmul for a rayon worker",
                      {"direction": "replay", "scenario": probe, "timeout_s": 25})
    # binding self-test: flip one hash of a reproducing class
    good = [r_ for r_ in rows if r_["panic"] == "none"]
    if len(good) >= 2:
        a = dict(good[0])
        b = dict(a)
        b["hash"] = "feedfacefeedface:1"
        okc, _, _ = ctx.validate_trace("Trace_Seeds", ctx.write_ndjson("seeds_c.ndjson", [a, b]))
        ctx.selftest("trace: same scenario class with two different hashes", not okc)
    ctx.cov["rule"] = ("Seeds.tla model-checked over all interleavings of two concurrent samplers (4 kinds, <=2 (3) chains, all seeds mod W); "
                       "scenarios (kind x chains x seed class x pool size x concurrency x progress x repeat) enumerated by TLC, a seeded sample of them "
                       "executed in child processes and validated by TLC against the memo specification; non-trivial = distinct stream classes observed")
    ctx.cov["exhaustive"] = False


def replay(ctx, path):
    body = json.load(open(path))
    if "scenario" in body:
        for _ in range(6):
            res = run_scenario(body["scenario"], timeout=body.get("timeout_s", 25))
            ctx.cov["evaluations"] += 1
            if res["panic"]:
                ctx.violation(body["key"], body["what"], body)
                break
        ctx.sample({"replayed": path})
        return
    rows = body["trace_prefix"]
    # re-execute the scenarios of the prefix (they are cheap) and re-validate
    out = []
    for r_ in rows:
        res = run_scenario(r_)
        hs = res["all"] if res["all"] else [res["hash"]]
        for h in hs:
            q = dict(r_)
            q["hash"] = h or "none"
            q["panic"] = res["panic"] or "none"
            out.append(q)
    ok, matched, _ = ctx.validate_trace("Trace_Seeds", ctx.write_ndjson("t.ndjson", out))
    ctx.cov["evaluations"] += len(out)
    if not ok:
        ctx.violation(body["key"], body["what"], body)
    ctx.sample({"replayed": path})
