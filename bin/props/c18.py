"""C18 — initial-position helpers (DESIGN 5, C18)."""
import json
import vlib


def run(ctx):
    thorough = ctx.tier == "thorough"
    ctx.assumptions += [
        "'independent standard-normal draws' is decided as stream identity: entry (i,j) must be bit-equal to the (i*d+j)-th "
        "StandardNormal f64 draw of SmallRng::seed_from_u64(seed) converted with T::from_f64 (no statistical test)",
        "unseeded init: shape, finiteness and 'two calls differ' only",
    ]
    r = ctx.tlc("InitPos", workers=4)
    ctx.require_ok(r, "InitPos")
    g = ctx.tlc("Gen_InitPos", cfg="Gen_InitPos_thorough.cfg" if thorough else "Gen_InitPos.cfg", workers=2, timeout=900, coverage=False)
    ctx.require_ok(g, "Gen_InitPos")
    cases = g.tagged("REPLAY")
    if len(cases) < 30:
        raise vlib.ToolError("Gen_InitPos produced %d cases" % len(cases))
    res = ctx.harness(["c18", "replay", ctx.write_ndjson("init.ndjson", cases)], timeout=1800)[-1]
    ctx.cov["evaluations"] += res["evaluations"]
    ctx.cov["traces_validated_against_impl"] += len(cases)
    ctx.cov["distinct_nontrivial"] += sum(1 for c in cases if c["n"] >= 2 and c["d"] >= 2)
    ctx.sample({"case": next(c for c in cases if c["n"] == 2 and c["d"] == 3)})
    for m in res["bad"]:
        ctx.violation("init n=%d d=%d seed=%s %s" % (m["n"], m["d"], m["seed"], m["type"]), m["why"],
                      {"direction": "replay", "spec": "Gen_InitPos", "mismatch": m})
    c = dict(next(c for c in cases if c["n"] == 2 and c["d"] == 3))
    c["idx"] = [[0, 2, 4], [1, 3, 5]]     # column-major fill
    rs = ctx.harness(["c18", "replay", ctx.write_ndjson("init_self.ndjson", [c])])[-1]
    ctx.selftest("replay: column-major expectation", len(rs["bad"]) > 0)
    ctx.cov["rule"] = ("InitPos.tla model-checked for n,d <= 3 (shape, row-major stream indexing, prefix, exact consumption); replay: "
                       "(n,d) grid incl. 0, 1 and 256 extents x 6 seed classes incl. u64::MAX x {f32,f64}; non-trivial = n,d >= 2")
    ctx.cov["exhaustive"] = True


def replay(ctx, path):
    raise vlib.ToolError("re-run: python3 bin/check C18 --tier quick (deterministic)")
