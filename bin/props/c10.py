"""C10 — progress mode: same draws, terminates, any precision, receiver may vanish (DESIGN 5, C10)."""
import json
import os
import random
import subprocess
from concurrent.futures import ThreadPoolExecutor
import vlib


def child(mode, case, timeout, pool=0):
    arg = json.dumps(case)
    env = dict(os.environ, RUST_BACKTRACE="0")
    if pool:
        env["RAYON_NUM_THREADS"] = str(pool)      # the size of the ambient rayon pool is the caller's choice (Progress!Slots)
    try:
        r = subprocess.run([vlib.BIN, "c10", mode, arg], stdout=subprocess.PIPE, stderr=subprocess.DEVNULL, text=True,
                           timeout=timeout, env=env, preexec_fn=vlib.limit_memory)
    except subprocess.TimeoutExpired:
        return {"why": ["did not return within %d s (hang)" % timeout], "events": []}
    for line in r.stdout.splitlines():
        if line.startswith("{") and '"summary"' in line:
            return json.loads(line)
    return {"why": ["child exited %d without a result (abort?)" % r.returncode], "events": []}


def run(ctx):
    thorough = ctx.tier == "thorough"
    ctx.assumptions += [
        "completion schedules are realised by counting chains whose last step waits until the reporter has started a chosen "
        "iteration (reporter_iter hook); timing only decides which schedule is realised, never the verdict",
        "every case runs in a child process under a watchdog (30 s + 0.5 s per reporter iteration is far above the "
        "250 ms polling period); no return within it is a hang",
        "the reporter's private bookkeeping is not assumed: its logged counters must be explained by Progress!Book for SOME set of "
        "received messages consistent with the logged order (TLC infers it)",
        "NUTS: run_progress draws are compared with run(n_collect + 1, n_discard) shifted by one draw",
    ]
    r = ctx.tlc("Progress", cfg="Progress_t.cfg" if thorough else "Progress_q.cfg", workers=8, timeout=3000)
    ctx.require_ok(r, "Progress")
    if thorough:
        for cfg in ("Progress_t2.cfg", "Progress_t3.cfg"):
            ctx.require_ok(ctx.tlc("Progress", cfg=cfg, workers=8, timeout=3000), cfg)
    ctx.tlc("Progress", cfg="Progress_neg.cfg", workers=4, expect_violation="Termination")
    # execution resources: chains as jobs of a pool of 1 / 2 executors (the caller's rayon pool); termination must not depend
    # on its size because the reporter has a thread of its own -- the reporter as a pool job on a 1-executor pool is the
    # negative control (with 2 executors even that terminates: Progress_pool2rep)
    for cfg in ("Progress_pool1.cfg", "Progress_pool2.cfg", "Progress_pool2rep.cfg"):
        ctx.require_ok(ctx.tlc("Progress", cfg=cfg, workers=4, timeout=3000), cfg)
    ctx.tlc("Progress", cfg="Progress_negpool.cfg", workers=2, expect_violation="Termination")
    # the reporter's bookkeeping for chain counts beyond TLC's reach: Apalache proves IndInv inductive (Init => IndInv,
    # IndInv /\ Next => IndInv', IndInv => ExitOnlyWhenAllFinal /\ CountOnce /\ bars full while chains wait) on the set
    # abstraction that Progress!BookAsSets ties to the bar-by-bar bookkeeping; dropping bars is the negative control
    acfg = "ProgressInd_t.cfg" if thorough else "ProgressInd.cfg"
    ctx.apalache("ProgressInd", acfg, "Init", "IndInv", 0, timeout=900)
    ctx.apalache("ProgressInd", acfg, "IndInv", "IndInv", 1, timeout=3000)
    ctx.apalache("ProgressInd", acfg, "IndInv", "Safety", 0, timeout=900)
    ctx.apalache("ProgressIndNeg", "ProgressInd.cfg", "IndInv", "IndInv", 1, timeout=900, expect_error=True)
    g = ctx.tlc("Gen_Progress", workers=2, coverage=False)
    ctx.require_ok(g, "Gen_Progress")
    cases = g.tagged("REPLAY")
    rnd = random.Random(ctx.seed)
    sched = [c for c in cases if c["t"] == "schedule"]
    conf = [c for c in cases if c["t"] == "config"]
    faults = [c for c in cases if c["t"] == "fault"]
    pick_s = rnd.sample(sched, 60 if thorough else 8)
    # every kind/type at least once; chain counts and sizes sampled
    pick_c = []
    for k in sorted({(c["kind"], c["ty"]) for c in conf}):
        pool = [c for c in conf if (c["kind"], c["ty"]) == k and (thorough or c["n"] <= 11) and c["nc"] < 257]
        # one fresh and one already-used sampler of every kind / precision
        fresh, used = [c for c in pool if not c["pre"]], [c for c in pool if c["pre"]]
        k_ = 3 if thorough else 1
        pick_c += rnd.sample(fresh, min(k_, len(fresh))) + rnd.sample(used, min(k_, len(used)))
    pick_c += [c for c in conf if c["nc"] >= 257]      # the large runs, every time
    pick_c += [c for c in conf if c["n"] == 48 and c["kind"] in ("MH", "Gibbs") and c["ty"] == "f64" and c["nc"] == 4 and c["nd"] == 0]
    slowf = [c for c in faults if c["slow"] and c["drop_at"] <= c["nc"] + c["nd"] - 3]   # >= 3 slow transitions after the drop: a periodic send fails
    fastf = [c for c in faults if not c["slow"]]
    pick_f = faults if thorough else rnd.sample(fastf, 6) + rnd.sample(slowf, 3)
    jobs = [("schedule", c, 60, 0) for c in pick_s] + [("config", c, 120, 0) for c in pick_c] + [("fault", c, 30, 0) for c in pick_f]
    # the same protocol on a caller-chosen rayon pool of 1 and 2 workers: every sampler kind / precision, a schedule, a fault
    small = [c for c in pick_c if c["nc"] < 257 and c["n"] <= 11]
    jobs += [("config", c, 120, 1) for c in small] + [("config", c, 120, 2) for c in small[::2]]
    jobs += [("schedule", pick_s[0], 60, 1), ("schedule", pick_s[-1], 60, 2), ("fault", pick_f[0], 30, 1)]
    with ThreadPoolExecutor(max_workers=5) as ex:
        results = list(ex.map(lambda j: child(*j), jobs))
    traces = []
    for (mode, c, _, pool), res in zip(jobs, results):
        ctx.cov["evaluations"] += 1
        if mode == "schedule":
            key = "progress-schedule waits=%s nc=%d nd=%d" % (c["waits"], c["nc"], c["nd"])
            if not res["why"]:
                traces.append((c, res["events"]))
        elif mode == "config":
            key = "progress-config %s %s%s%s" % (c["kind"], c["ty"], " (used sampler)" if c.get("pre") else "", " rayon pool of %d" % pool if pool else "")
        else:
            key = "progress-fault drop_at=%d nc=%d nd=%d%s" % (c["drop_at"], c["nc"], c["nd"], " slow" if c["slow"] else "")
        for w in res["why"]:
            detail = "%s (n=%s nc=%s nd=%s): %s" % (key, c.get("n", len(c.get("waits", []))), c["nc"], c["nd"], w[:300])
            ctx.violation(key, detail, {"direction": "replay", "spec": "Gen_Progress", "mode": mode, "case": c, "why": w, "pool": pool})
        if not res["why"]:
            ctx.cov["traces_validated_against_impl"] += 1
            if mode != "fault" and c.get("n", 7) > 5:
                ctx.cov["distinct_nontrivial"] += 1
            if mode == "fault" and 0 < c["drop_at"] <= c["nc"] + c["nd"]:
                ctx.cov["distinct_nontrivial"] += 1
    ctx.sample({"schedule_case": pick_s[0], "config_case": pick_c[0], "fault_case": pick_f[0]})
    # impl -> spec: the reporter's logged bookkeeping must be explained by Progress!Book
    for c, evs in traces:
        tp = ctx.write_ndjson("progress_trace.ndjson", evs)
        ok, matched, run_ = ctx.validate_trace("Trace_Progress", tp, timeout=600)
        if ok:
            ctx.cov["traces_validated_against_impl"] += 1
        else:
            bad = evs[matched] if matched is not None and matched < len(evs) else None
            ctx.violation("progress-trace waits=%s nc=%d nd=%d" % (c["waits"], c["nc"], c["nd"]),
                          "reporter event %s is not explained by Progress.tla" % json.dumps(bad),
                          {"direction": "trace", "spec": "Trace_Progress", "first_unmatched_index": matched, "event": bad, "trace": evs})
    if traces:
        ctx.sample({"protocol_trace_prefix": traces[0][1][:8]})
        evs = json.loads(json.dumps(traces[0][1]))
        j = max(i for i, e in enumerate(evs) if e["e"] == "book")
        evs[j]["fin"] -= 1
        okc, _, _ = ctx.validate_trace("Trace_Progress", ctx.write_ndjson("progress_c.ndjson", evs[: j + 1]))
        ctx.selftest("trace: final bookkeeping event with a finished count one too low", not okc)
    ctx.cov["rule"] = ("Progress.tla: all interleavings of N workers and the reporter with receiver crash, liveness under weak fairness (dropping bars "
                       "instead of recycling them is the negative control); ProgressInd.tla: inductive invariant of the bookkeeping proved by Apalache for "
                       "N = 6 / 3 bars (thorough: N = 10 / 5 bars; measured once for N = 16); chains as jobs of a pool of 1 / 2 executors (reporter on the pool is the "
                       "negative control); replay (default pool, and rayon pools of 1 and 2 workers): completion schedules of 7 chains over 5 bars, sampler x precision x "
                       "chain-count configurations, receiver dropped at every point; non-trivial = cases with more chains than bars / mid-run drops")
    ctx.cov["exhaustive"] = False


def replay(ctx, path):
    body = json.load(open(path))
    if body.get("direction") == "trace":
        ok, _, _ = ctx.validate_trace("Trace_Progress", ctx.write_ndjson("t.ndjson", body["trace"]))
        if not ok:
            ctx.violation(body["key"], body["what"], body)
    else:
        res = child(body["mode"], body["case"], 120, body.get("pool", 0))
        ctx.cov["evaluations"] += 1
        for w in res["why"]:
            ctx.violation(body["key"], body["what"], body)
            break
    ctx.sample({"replayed": path})
