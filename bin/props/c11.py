"""C11 — split R-hat and the run summary (DESIGN 5, C11)."""
import json
import vlib
from props import stats_common as sc


def run(ctx):
    thorough = ctx.tier == "thorough"
    ctx.assumptions += [
        "sample values are integers (exactly representable); expected R-hat^2 is an exact fraction computed by TLC",
        "f32 tolerance 2^-16 relative (2^-14 above 500 draws per half, x8 for affinely transformed inputs)",
        "the property does not fix the divisor of the within variance: 1/n (as coded) and 1/(n-1) are both accepted",
        "constant halves (W = 0): R-hat is undefined, only 'does not fail' is asserted",
        "NaN handling of the summary is exercised within the property's quantifier (1..8 parameters)",
    ]
    n = sc.run_small(ctx, ["t1", "t2", "t4", "q2"] if thorough else ["q1", "q3"], "rhat")
    n += sc.run_big(ctx, "rhat")
    # run summary
    g = ctx.tlc("BasicStats", cfg="BasicStats_thorough.cfg" if thorough else "BasicStats.cfg", workers=4, timeout=1800)
    ctx.require_ok(g, "BasicStats")
    cases = g.tagged("REPLAY")
    res = ctx.harness(["stats", "basic", ctx.write_ndjson("basic.ndjson", cases)])[-1]
    ctx.cov["evaluations"] += len(cases)
    ctx.cov["traces_validated_against_impl"] += len(cases)
    ctx.cov["distinct_nontrivial"] += res["finite_checked"]
    ctx.sample({"summary_case": cases[len(cases) // 2]})
    for m in res["bad"]:
        ctx.violation("basic_stats s=%s" % m["s"], "summary of %s: %s" % (m["s"], m.get("observed", m.get("panic"))),
                      {"direction": "replay", "spec": "BasicStats", "mismatch": m, "kind": "basic"})
    c = dict(next(c for c in cases if not c["nan"] and len(c["s"]) >= 3))
    c["max"] = c["max"] + 1
    rs = ctx.harness(["stats", "basic", ctx.write_ndjson("basic_self.ndjson", [c])])[-1]
    ctx.selftest("replay: perturbed expected maximum of one summary", len(rs["bad"]) > 0)
    ctx.cov["rule"] = ("every C x N integer array in the configured bounds (TLC-enumerated, theorems of Stats.tla checked on each) "
                       "x 4 embeddings (alone, among other parameters, affine, rescaled), plus spec-generated long arrays; "
                       "non-trivial = arrays with W > 0 and R-hat^2 != 1; summary: sequences with and without NaN")
    ctx.cov["exhaustive"] = True


def replay(ctx, path):
    sc.replay(ctx, path, "rhat")
