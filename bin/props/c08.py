"""C08 — chains of one sampler are driven by distinct random streams (DESIGN 5, C08)."""
import json
import vlib


def run(ctx):
    thorough = ctx.tier == "thorough"
    ctx.assumptions += [
        "a generator is fingerprinted by the first values a clone of it produces (MH: pub rng field and pub proposal; NUTS: "
        "verif_rng_clone / verif_chains hooks; HMC: momentum rows and acceptance uniforms of the first step from hook events)",
        "'acceptance and proposal generator seeded identically' is detected by regenerating the library proposal's noise from a clone "
        "of the acceptance generator",
        "trajectories from a common start are compared after 4-6 transitions (two chains both standing still that long has negligible probability)",
    ]
    r = ctx.tlc("Seeds", cfg="Seeds_req_t.cfg" if thorough else "Seeds_req.cfg", workers=8, timeout=3000)
    ctx.require_ok(r, "Seeds (required behaviour)")
    ctx.tlc("Seeds", cfg="Seeds_neg_clone.cfg", workers=4, expect_violation="DistinctStreams")
    tp = ctx.path("fp.ndjson")
    args = ["c08", "record", "--seed", ctx.seed, "--out", tp] + (["--thorough"] if thorough else [])
    s = ctx.harness(args, timeout=1800)[-1]
    rows = [json.loads(x) for x in open(tp).read().splitlines()]
    ctx.cov["evaluations"] += len(rows)
    ctx.cov["distinct_nontrivial"] += sum(1 for r_ in rows if r_.get("n", 0) >= 3)
    ctx.sample({"fingerprints": {k: (v[:2] if isinstance(v, list) else v) for k, v in rows[0].items()}})
    for r_ in rows:
        if r_["e"] == "panic":
            ctx.violation("streams-panic n=%s seed=%s" % (r_["n"], r_["seed"]), "constructing / seeding a sampler panicked: %s" % r_["msg"],
                          {"direction": "trace", "event": r_})
    rows = [r_ for r_ in rows if r_["e"] == "fp"]
    # TLC decides each sampler instance (one event per trace so that every failing configuration is reported)
    by_kind = {}
    for r_ in rows:
        by_kind.setdefault((r_["kind"], r_["seed"] != "none"), []).append(r_)
    for (kind, seeded), group in sorted(by_kind.items()):
        ok, matched, run_ = ctx.validate_trace("Trace_Seeds", ctx.write_ndjson("fp_%s_%s.ndjson" % (kind.replace("/", "_").replace(" ", "_"), seeded), group), timeout=600)
        if ok:
            ctx.cov["traces_validated_against_impl"] += len(group)
        else:
            bad = group[matched]
            why = []
            for f in ("acc", "prop", "after"):
                if len(set(bad[f])) != len(bad[f]):
                    why.append("%s streams coincide" % {"acc": "acceptance/main", "prop": "proposal/momentum", "after": "trajectories from the common start"}[f])
            if set(bad["prop"]) & set(bad["accasprop"]):
                why.append("a proposal generator is seeded like an acceptance generator")
            ctx.violation("shared-stream %s %s" % (kind, "seeded" if seeded else "unseeded"),
                          "%s, %d chains, seed %s: %s" % (kind, bad["n"], bad["seed"], "; ".join(why) or "DistinctStreams violated"),
                          {"direction": "trace", "spec": "Trace_Seeds", "event": bad})
    # binding self-test
    g = json.loads(json.dumps(next(r_ for r_ in rows if r_["kind"] == "NUTS" and r_["n"] >= 3)))
    g["acc"][2] = g["acc"][0]
    okc, _, _ = ctx.validate_trace("Trace_Seeds", ctx.write_ndjson("fp_c.ndjson", [g]))
    ctx.selftest("trace: two chains with the same generator fingerprint", not okc)
    ctx.cov["rule"] = ("Seeds.tla (DistinctStreams for all seeds mod W, seeded and unseeded construction; cloning one proposal into every chain is the "
                       "negative control); fingerprints of MH (library and user-defined seedable proposal), HMC and NUTS samplers with 2..64 chains, HMC batches of 16k..120k momentum components (dim up to 40000), "
                       "unseeded and seeds {0, 42, u64::MAX-1, u64::MAX, random}; non-trivial = configurations with >= 3 chains")
    ctx.cov["exhaustive"] = False


def replay(ctx, path):
    raise vlib.ToolError("re-run: python3 bin/check C08 --tier quick (fingerprints are re-recorded from the current tree)")
