"""C04 — NUTS step size: dual averaging in warm-up, frozen afterwards (DESIGN 5, C04)."""
import json
import random
import vlib


def run(ctx):
    thorough = ctx.tier == "thorough"
    ctx.assumptions += [
        "adaptation state is read from the nuts_init / nuts_end hook events (m, n_discard, eps, eps_bar, H-bar, mu, alpha, n_alpha)",
        "TLC checks phase logic, counter persistence, shrinkage point, power-of-two start value and COARSE interval versions of the three "
        "recurrences from certified tables (20 sqrt(m) in 1/16, m^-0.75 in 2^-12, values in 2^-12 log-space fixed point); the FINE check "
        "(residual of each recurrence re-evaluated in f64 from the previously logged values, tolerance 1e-9 f64 / 2e-5 f32, budget 8) is "
        "computed by the harness and bounded by the specification",
        "the clause 'the realised acceptance statistic after warm-up is close to the requested one' is statistical: it is reported and only "
        "asserted as mean in [delta - 0.25, 1] on the standard Gaussian after >= 300 warm-up transitions",
        "start value: the harness logs the log acceptance probability of one leapfrog step (its own integrator and log-density, f64) at "
        "step sizes 1, eps0, eps0/2 and 2 eps0; DualAvg!StartValueOk decides from them whether eps0 is where Algorithm 4 stops (acceptance "
        "crosses 1/2 next to eps0; undefined or zero density = acceptance 0). Where the unit step itself leaves the support either "
        "direction of crossing is accepted (the implementation first looks for a finite trial point in its own way)",
    ]
    r = ctx.tlc("MC_DualAvg", workers=4)
    ctx.require_ok(r, "MC_DualAvg")
    tp = ctx.path("dualavg.ndjson")
    try:
        res = ctx.harness(["c04", "record", "--seed", ctx.seed, "--out", tp] + (["--thorough"] if thorough else []), timeout=400)[-1]
    except vlib.ToolError as e:
        if "timed out" not in str(e):
            raise
        # a step size of exactly zero makes the leapfrog map the identity: the trajectory is doubled for ever
        ctx.violation("dualavg-hang", "the recording run (a few thousand NUTS transitions, about 10 s) did not finish within 400 s: a chain hangs "
                      "-- a step size that reached 0 (or a non-finite one) never U-turns", {"direction": "trace", "what": str(e)})
        return
    lines = open(tp).read().splitlines()
    evs = [json.loads(x) for x in lines]
    ctx.cov["evaluations"] += len(evs)
    ctx.cov["distinct_nontrivial"] += sum(1 for e in evs if e["e"] == "step" and e["m"] <= e["nd"])
    ctx.cov["adapt_steps"] = sum(1 for e in evs if e["e"] == "step" and e["m"] <= e["nd"])
    ctx.cov["frozen_steps"] = sum(1 for e in evs if e["e"] == "step" and e["m"] > e["nd"])
    ctx.cov["realised_acceptance_after_warmup"] = [c for c in res["chains"] if c["post_warmup_steps"] >= 20][:12]
    ctx.sample({"events": evs[1:4]})
    for c in res["chains"]:
        if c["panic"]:
            ctx.violation("dualavg-panic %s" % c["label"], "NUTS run panicked: %s" % c["panic"][:200], {"direction": "trace", "chain": c})
        if c["label"].startswith("stdgauss") and "warmup=300" in c["label"] or "warmup=500" in c["label"] or "warmup=2000" in c["label"]:
            mean = c["post_warmup_mean_accept"]
            if c["label"].startswith("stdgauss") and mean is not None and c["post_warmup_steps"] >= 100 and not (c["delta"] - 0.25 <= mean <= 1.0):
                ctx.violation("dualavg-acceptance %s" % c["label"],
                              "realised acceptance statistic %.3f after warm-up is far from the requested %.2f" % (mean, c["delta"]),
                              {"direction": "trace", "chain": c})
    # validate chain by chain so that each failing chain is reported
    starts = [i for i, e in enumerate(evs) if e["e"] == "chain"] + [next((i for i, e in enumerate(evs) if e["e"] in ("heur", "multi")), len(evs))]
    multi = [e for e in evs if e["e"] == "multi"]
    ctx.cov["multi_chain_start_values"] = {"chains": len(multi), "differ_from_chain0": sum(1 for e in multi if e["differs_from_chain0"])}
    if multi and not any(e["differs_from_chain0"] for e in multi):
        raise vlib.ToolError("multi-chain cases are vacuous: every chain has chain 0's start value")
    ok, matched, run_ = ctx.validate_trace("Trace_DualAvg", tp, timeout=3000)
    if ok:
        ctx.cov["traces_validated_against_impl"] += len(starts) - 1 + sum(1 for e in evs if e["e"] in ("heur", "multi"))
    else:
        pos = matched
        while pos is not None and pos < len(evs):
            bad = evs[pos]
            label = next((evs[s]["label"] for s in reversed(starts[:-1]) if s <= pos), "heuristic")
            if bad["e"] == "multi":
                label = "multi-chain %s chain %s of %s nd=%s progress=%s" % (bad["set"], bad["chain"], bad["chains"], bad["nd"], bad["progress"])
            ctx.violation("dualavg-trace %s" % (label if bad["e"] != "heur" else "heuristic k=%s x0=%s p0=%s" % (bad.get("k"), bad.get("x0"), bad.get("p0"))),
                          "adaptation event is not a step of DualAvg.tla (%s): %s; previous: %s" % (run_.violated or "no action matches", json.dumps(bad)[:300], json.dumps(evs[pos - 1])[:200]),
                          {"direction": "trace", "spec": "Trace_DualAvg", "event": bad, "trace": lines[max(0, pos - 200):pos + 1]})
            # continue after this chain
            nxt = next((s for s in starts if s > pos), None)
            if bad["e"] in ("heur", "multi"):
                nxt = pos + 1 if pos + 1 < len(evs) else None
            if nxt is None or nxt >= len(evs):
                break
            rest = evs[nxt:]
            ok2, m2, run_ = ctx.validate_trace("Trace_DualAvg", ctx.write_ndjson("da_rest.ndjson", rest), timeout=3000)
            if ok2:
                break
            pos = nxt + m2
    # binding self-test: a frozen step whose step size moved
    i = next(i for i, e in enumerate(evs) if e["e"] == "step" and e["m"] > e["nd"] + 1)
    c0 = max(s for s in starts if s <= i)
    bad = json.loads(json.dumps(evs[c0:i + 1]))
    bad[-1]["eps"]["v"] += 700
    okc, _, _ = ctx.validate_trace("Trace_DualAvg", ctx.write_ndjson("da_c.ndjson", bad))
    ctx.selftest("trace: step size changed after warm-up", not okc)
    # binding self-test: a start value whose own trial point is outside the support (acceptance undefined) on the halving branch
    hs = [e for e in evs if e["e"] == "heur" and e["a_one"]["k"] == "fin" and e["a_one"]["v"] < -45426 - 2000 and e["a_eps"]["k"] == "fin"]
    if not hs:
        raise vlib.ToolError("no start-up search that halved in the trace")
    h = json.loads(json.dumps(hs[0]))
    h["a_eps"] = {"k": "nan", "v": 0}
    okh, _, _ = ctx.validate_trace("Trace_DualAvg", ctx.write_ndjson("da_h.ndjson", [h]))
    ctx.selftest("trace: halving search that stopped at a trial point of undefined density", not okh)
    ctx.cov["start_value_searches"] = {"events": sum(1 for e in evs if e["e"] == "heur"),
                                       "unit_step_leaves_support": sum(1 for e in evs if e["e"] == "heur" and e["a_one"]["k"] != "fin"),
                                       "a_trial_point_next_to_eps0_outside_support": sum(1 for e in evs if e["e"] == "heur" and "fin" != e["a_twice"]["k"])}
    ctx.cov["rule"] = ("MC_DualAvg: phase machine over 3 run() calls (adapt exactly while m <= n_discard, frozen afterwards, counter persists); traces: "
                       "warm-up lengths 0,1,3,50,300 (500, 2000 thorough), requested acceptance 0.55..0.95, repeated run() calls incl. RESUMED warm-ups (a later call adapts again), Gaussian/Rosenbrock/"
                       "half-line targets, f32 and f64, plus the start-up heuristic through its wrapper (Gaussians of scale 1e-5..3e4, quartic, half-line and Gamma targets of scale 1 and 6e-7 with momenta pointing out of the support) and the per-chain start value / shrinkage point of 4- and 5-chain NUTS samplers (run and run_progress); non-trivial = adapting transitions")
    ctx.cov["exhaustive"] = False


def replay(ctx, path):
    body = json.load(open(path))
    if "trace" in body:
        rows = [json.loads(x) for x in body["trace"]]
        k = max([i for i, e in enumerate(rows) if e["e"] == "chain"] or [0])
        ok, _, _ = ctx.validate_trace("Trace_DualAvg", ctx.write_ndjson("t.ndjson", rows[k:]))
        if not ok:
            ctx.violation(body["key"], body["what"], body)
    else:
        raise vlib.ToolError("re-run: python3 bin/check C04 --tier quick")
    ctx.sample({"replayed": path})
