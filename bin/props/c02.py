"""C02 — HMC update = L leapfrog steps + Metropolis test, rows independent, reversible (DESIGN 5, C02)."""
import glob
import json
import os
import random
import vlib

QUICK = ["a1e1l1d1m2", "a2e1l0d1m2", "a4e1l1d1m2", "a2e2l1d1m2", "a1e1l3d1", "a2e1l2d2", "a4e2l2d1", "a4e2l2d2"]


def run(ctx):
    thorough = ctx.tier == "thorough"
    ctx.assumptions += [
        "replay: quadratic targets -A|x|^2/2 with dyadic inputs and step sizes; every intermediate is exactly representable in f64 "
        "(TLC checks ExactLattice), so positions, momenta and both energies are compared BIT FOR BIT on the f64 backend; on the f32 "
        "backend only the proposal and 'old row or proposal' are compared",
        "momenta and uniforms are injected through the verif hooks; uniforms are 0, 1-ulp and 2^-j, decided against certified bounds "
        "0.693 < ln 2 < 0.694 on the difference rounded to 2^-10; undecidable draws are never generated (rule U)",
        "trace: the harness's own closed-form gradient/log-density of each target is the oracle; residuals are logged in units of the "
        "tolerance (1e-7 f64, 2e-4..5e-4 f32-level paths) and must stay below 10 units; Metropolis margin 2^-8",
    ]
    names = sorted(os.path.basename(f)[len("MC_HMC_"):-4] for f in glob.glob(os.path.join(vlib.SPEC, "MC_HMC_*.cfg")))
    if not thorough:
        names = [n for n in names if n in QUICK]
    cases = []
    for nme in names:
        g = ctx.tlc("MC_HMC", cfg="MC_HMC_%s.cfg" % nme, workers=4, timeout=900)
        ctx.require_ok(g, "MC_HMC_" + nme)
        cs = g.tagged("REPLAY")
        if len(cs) < 20:
            raise vlib.ToolError("MC_HMC_%s produced %d behaviours" % (nme, len(cs)))
        cases += cs
    res = ctx.harness(["c02", "replay", ctx.write_ndjson("hmc.ndjson", cases)], timeout=1800)[-1]
    ctx.cov["evaluations"] += res["evaluations"]
    ctx.cov["traces_validated_against_impl"] += len(cases)
    ctx.cov["distinct_nontrivial"] += sum(1 for c in cases if any(s["acc"] and s["xnew"] != s["xstart"] for s in c["steps"]))
    ctx.cov["rows_moved_in_replay"] = res["moved"]
    ctx.sample({"behaviour": next(c for c in cases if len(c["steps"]) == 2 and not c["steps"][0]["acc"] and c["steps"][1]["acc"])})
    for m in res["bad"]:
        b = m["behaviour"]
        key = "hmc-replay A=%s E=%s L=%s dim=%s steps=%s %s" % (b["A"], b["E"], b["L"], b["dim"],
              [(s["xstart"], s["p0"], s["u"]) for s in b["steps"]], m["backend"])
        ctx.violation(key, "; ".join(m["why"]) if isinstance(m["why"], list) else m["why"],
                      {"direction": "replay", "spec": "MC_HMC", "mismatch": m})
    b0 = json.loads(json.dumps(next(c for c in cases if c["steps"][0]["acc"] and c["L"] >= 1 and c["steps"][0]["xnew"] != c["steps"][0]["xstart"])))
    b0["steps"][0]["xprop"][0] += 1
    b0["steps"][0]["xnew"][0] += 1
    rs = ctx.harness(["c02", "replay", ctx.write_ndjson("hmc_self.ndjson", [b0])])[-1]
    ctx.selftest("replay: expected proposal off by 2^-S in one coordinate", len(rs["bad"]) > 0)
    # impl -> spec on arbitrary targets
    tp = ctx.path("hmc_trace.ndjson")
    s = ctx.harness(["c02", "record", "--seed", ctx.seed, "--out", tp] + (["--thorough"] if thorough else []), timeout=3000)[-1]
    lines = open(tp).read().splitlines()
    ok, matched, run_ = ctx.validate_trace("Trace_HMC", tp, timeout=3000)
    ctx.cov["evaluations"] += s["events"]
    ctx.cov["distinct_nontrivial"] += s["moved"]
    rows = [json.loads(x) for x in lines]
    ctx.cov["trace_rows_rejecting_bad_proposals"] = sum(1 for r in rows if r["e"] == "row" and r["delta"]["k"] in ("nan", "ninf"))
    ctx.sample({"trace_row": next(r for r in rows if r["e"] == "row" and r["is_prop"] and r["L"] > 0)})
    if ok:
        ctx.cov["traces_validated_against_impl"] += sum(1 for r in rows if r["e"] == "new")
    else:
        bad = rows[matched] if matched is not None and matched < len(rows) else None
        pan = next((r for r in rows if r["e"] == "panic"), None)
        ctx.violation("hmc-trace %s L=%s" % ((bad or pan or {}).get("label"), (bad or {}).get("L")),
                      "HMC step event is not a behaviour of HMC.tla: %s" % json.dumps(bad or pan)[:400],
                      {"direction": "trace", "spec": "Trace_HMC", "first_unmatched_index": matched, "event": bad, "trace": lines[max(0, (matched or 0) - 3):(matched or 0) + 1]})
    i = next(i for i, r in enumerate(rows) if r["e"] == "row" and r["is_prop"] and not r["is_old"] and r["delta"]["k"] == "fin")
    bad = json.loads(json.dumps(rows[i]))
    bad["delta"] = {"k": "nan", "v": 0}
    okc, _, _ = ctx.validate_trace("Trace_HMC", ctx.write_ndjson("hmc_c.ndjson", [bad]))
    ctx.selftest("trace: an accepted move with NaN energy difference", not okc)
    ctx.cov["rule"] = ("HMC.tla model-checked per configuration (A in {1,2,4}, eps in {1/2,1/4}, L in 0..3, 1-2 dims, one and two consecutive steps): "
                       "exact lattice, code-shaped integrator = velocity Verlet, exact reversibility; every behaviour replayed through the real HMC::step "
                       "in batches, reversed batches and alone (row independence); traces on Gaussian, Rosenbrock 2-D/N-D, Student-t and half-line "
                       "targets, 1..32 chains, dim 2..16, L 0..64, stable to overflowing step sizes; non-trivial = rows that moved")
    ctx.cov["exhaustive"] = True


def replay(ctx, path):
    body = json.load(open(path))
    if body.get("direction") == "replay":
        res = ctx.harness(["c02", "replay", ctx.write_ndjson("one.ndjson", [body["mismatch"]["behaviour"]])])[-1]
        ctx.cov["evaluations"] += res["evaluations"]
        if res["bad"]:
            ctx.violation(body["key"], body["what"], body)
    else:
        rows = [json.loads(x) for x in body["trace"]]
        ok, _, _ = ctx.validate_trace("Trace_HMC", ctx.write_ndjson("t.ndjson", [r for r in rows if r["e"] == "row"]))
        if not ok:
            ctx.violation(body["key"], body["what"], body)
    ctx.sample({"replayed": path})
