"""C13 — streaming trackers and progress R-hat (DESIGN 5, C13)."""
import json
import random
import vlib


def run(ctx):
    thorough = ctx.tier == "thorough"
    ctx.assumptions += [
        "states are small integers (0..7) so counts, sums and sums of squares are exact; reported f32 values are compared in "
        "fixed point (2^-12) with budget (2 + n/256) units on means and (4 + n/32) units on variances",
        "the initial value of the acceptance average is not fixed by the property: the first report is only range-checked",
        "multi-row updates: the property fixes no row order, the specification allows the envelope over all orders",
    ]
    # 1. spec -> impl: exhaustive histories
    total = 0
    for cfg in (["t1", "t2", "t3"] if thorough else ["q1", "q2"]):
        g = ctx.tlc("MC_Trackers", cfg="MC_Trackers_%s.cfg" % cfg, workers=8, timeout=2400)
        ctx.require_ok(g, "MC_Trackers_" + cfg)
        cases = g.tagged("REPLAY")
        if len(cases) < 50:
            raise vlib.ToolError("MC_Trackers_%s: %d cases" % (cfg, len(cases)))
        total += len(cases)
        res = ctx.harness(["c13", "replay", ctx.write_ndjson("tr_%s.ndjson" % cfg, cases)], timeout=1800)[-1]
        ctx.cov["evaluations"] += res["evaluations"]
        ctx.cov["traces_validated_against_impl"] += len(cases)
        ctx.cov["distinct_nontrivial"] += res["rhat_checked"]
        for m in res["bad"]:
            ctx.violation("trackers hist=%s" % json.dumps(m["hist"]), "tracker statistics differ: %s" % (m.get("why") or m.get("panic")),
                          {"direction": "replay", "spec": "MC_Trackers_" + cfg, "mismatch": m})
        if cfg in ("q1", "t1"):
            ctx.sample({"history_case": cases[len(cases) // 2]})
            c = dict(next(c for c in cases if c["wn"][0] > 0))
            c["rn"] = [x * 2 for x in c["rn"]]
            rs = ctx.harness(["c13", "replay", ctx.write_ndjson("tr_self.ndjson", [c])])[-1]
            ctx.selftest("replay: doubled expected R-hat^2 of one history", len(rs["bad"]) > 0)
    # 1b. many chains / parameters (LCG-generated histories, same expected statistics)
    g = ctx.tlc("Gen_TrackersBig", workers=4, timeout=900, coverage=False)
    ctx.require_ok(g, "Gen_TrackersBig")
    cases = g.tagged("REPLAY")
    if len(cases) < 20:
        raise vlib.ToolError("Gen_TrackersBig: %d cases" % len(cases))
    res = ctx.harness(["c13", "replay", ctx.write_ndjson("tr_big.ndjson", cases)], timeout=1800)[-1]
    ctx.cov["evaluations"] += res["evaluations"]
    ctx.cov["traces_validated_against_impl"] += len(cases)
    ctx.cov["distinct_nontrivial"] += res["rhat_checked"]
    for m in res["bad"]:
        h = m["hist"]
        ctx.violation("trackers-big chains=%d params=%d len=%d" % (len(h[0]), len(h[0][0]), len(h)),
                      "tracker statistics differ: %s" % (m.get("why") or m.get("panic")),
                      {"direction": "replay", "spec": "Gen_TrackersBig", "mismatch": m})
    # 2. collect_rhat on a grid of summaries (any number of parameters)
    for cfg in (["t1", "t2", "q1"] if thorough else ["q1", "q2"]):
        g = ctx.tlc("RhatGrid", cfg="RhatGrid_%s.cfg" % cfg, workers=4, timeout=1800)
        ctx.require_ok(g, "RhatGrid_" + cfg)
        cases = g.tagged("REPLAY")
        res = ctx.harness(["c13", "grid", ctx.write_ndjson("grid_%s.ndjson" % cfg, cases)], timeout=1800)[-1]
        ctx.cov["evaluations"] += res["evaluations"]
        ctx.cov["traces_validated_against_impl"] += len(cases)
        ctx.cov["distinct_nontrivial"] += sum(1 for c in cases if any(x > 0 for x in [a - b for a, b in zip(c["rn"], c["rd"])]))
        for m in res["bad"]:
            c = m["case"]
            ctx.violation("collect_rhat C=%d P=%d n=%d means=%s vars=%s" % (len(c["means"]), len(c["means"][0]), c["n"], c["means"], c["vars"]),
                          "collect_rhat differs from the classical sqrt(var+/W): %s" % {k: m[k] for k in m if k != "case"},
                          {"direction": "replay", "spec": "RhatGrid_" + cfg, "mismatch": m})
        if cfg == "q1":
            ctx.sample({"summary_grid_case": cases[7]})
    # 3. impl -> spec: long histories
    tp = ctx.path("trk.ndjson")
    n, steps, long_steps = (24, 5000, 5000) if thorough else (8, 700, 2600)
    s = ctx.harness(["c13", "record", "--seed", ctx.seed, "--chains", n, "--steps", steps, "--long-steps", long_steps, "--out", tp], timeout=1800)[-1]
    ok, matched, run_ = ctx.validate_trace("Trace_Trackers", tp, timeout=3000)
    lines = open(tp).read().splitlines()
    ctx.cov["evaluations"] += s["events"]
    ctx.cov["distinct_nontrivial"] += s["moved"]
    ctx.sample({"trace_event": json.loads(lines[2])})
    if ok:
        ctx.cov["traces_validated_against_impl"] += n + 3
    else:
        bad = json.loads(lines[matched]) if matched is not None and matched < len(lines) else None
        prev = json.loads(lines[matched - 1]) if matched else None
        ctx.violation("trackers-trace %s" % json.dumps(bad, sort_keys=True)[:200],
                      "tracker report is not explained by Trackers.tla (previous report %s)" % json.dumps(prev)[:200],
                      {"direction": "trace", "spec": "Trace_Trackers", "first_unmatched_index": matched, "event": bad,
                       "trace": lines[: (matched or 0) + 1]})
    evs = [json.loads(x) for x in lines]
    i = next(i for i, e in enumerate(evs) if e["e"] == "upd" and e["n"] == 10)
    evs[i]["mean"][0] += 40
    okc, _, _ = ctx.validate_trace("Trace_Trackers", ctx.write_ndjson("trk_c.ndjson", evs[: i + 1]))
    ctx.selftest("trace: reported mean off by 0.01", not okc)
    ctx.cov["rule"] = ("replay: every update history in the bounds (TLC) through ChainTracker, collect_rhat and MultiChainTracker, "
                       "plus a grid of per-chain summaries through collect_rhat; non-trivial = histories/grid points with defined "
                       "R-hat (W > 0). trace: histories up to 5000 updates, 1..8 parameters, 4 element types; non-trivial = updates that changed the state")
    ctx.cov["exhaustive"] = True


def replay(ctx, path):
    body = json.load(open(path))
    if body.get("direction") == "trace":
        rows = [json.loads(x) for x in body["trace"]]
        ok, _, _ = ctx.validate_trace("Trace_Trackers", ctx.write_ndjson("t.ndjson", rows))
        if not ok:
            ctx.violation(body["key"], body["what"], body)
    else:
        raise vlib.ToolError("re-run: python3 bin/check C13 --tier quick (deterministic; re-finds %s)" % body["key"])
