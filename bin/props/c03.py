"""C03 — NUTS transition is Algorithm 6 on the leapfrog trajectory (DESIGN 5, C03)."""
import json
import random
import vlib


def run(ctx):
    thorough = ctx.tier == "thorough"
    ctx.assumptions += [
        "a whole transition cannot be driven into a chosen slice/U-turn pattern (the momentum is drawn inside), so transitions of real runs are "
        "validated (impl -> spec); NutsTree.tla itself is model-checked exhaustively over ALL oracle patterns to tree depth 2 (quick) / 3 (thorough)",
        "build_tree CAN be driven (spec -> impl, Replay_NutsTree.tla): on a scripted target whose first coordinate is the trajectory offset, with exact "
        "dyadic momenta/positions, every script (slice class, divergence, momentum per offset) to depth 1 (quick) / 2 (thorough) and LCG-sampled scripts "
        "to depth 3 / 4; (n', s', n_alpha, alpha') must equal the specification's, the candidate must be one the specification can return; "
        "WHICH admissible candidate is returned (the uniform draws inside build_tree) is not controlled: 6 generator seeds per script",
        "trajectory points are identified by the bit pattern of the logged (position, momentum); every leaf is re-integrated with the "
        "harness's own leapfrog and closed-form gradient (tolerance 1e-11 f64, 5e-4 f32); coinciding points are not asserted",
        "uniforms are quantised to 2^-16 with a margin of 2 quanta; U-turn products within 1e-4 of zero and slice/divergence "
        "comparisons within 1.0 of the bound 1000 are not asserted (rule U); the direction rule (which half of [0,1) means forward) is not asserted",
    ]
    r = ctx.tlc("NutsTree", cfg="NutsTree_t.cfg" if thorough else "NutsTree_q.cfg", workers=8, timeout=3400, xmx="24g")
    ctx.require_ok(r, "NutsTree")
    ctx.tlc("NutsTree", cfg="NutsTree_neg.cfg", workers=4, expect_violation="UniformWithinSubtree")
    # spec -> impl: build_tree on scripted targets
    g = ctx.tlc("Replay_NutsTree", cfg="Replay_NutsTree_t.cfg" if thorough else "Replay_NutsTree_q.cfg", workers=8, timeout=3000, coverage=False)
    ctx.require_ok(g, "Replay_NutsTree")
    rows = g.tagged("REPLAY")
    if len(rows) < 2000:
        raise vlib.ToolError("Replay_NutsTree produced %d results" % len(rows))
    rr = replay_scripts(ctx, rows)
    ctx.cov["evaluations"] += rr["evaluations"]
    ctx.cov["traces_replayed_into_impl"] = ctx.cov.get("traces_replayed_into_impl", 0) + rr["cases"]
    ctx.cov["build_tree_replay"] = {k: rr[k] for k in ("cases", "evaluations", "full_depth_trees", "stopped_by_uturn", "cases_with_two_candidates_seen")}
    if rr["full_depth_trees"] == 0 or rr["stopped_by_uturn"] == 0 or rr["cases_with_two_candidates_seen"] == 0:
        raise vlib.ToolError("build_tree replay is vacuous: %s" % ctx.cov["build_tree_replay"])
    for m in rr["bad"]:
        c = m["case"]
        ctx.violation("build-tree v=%s j=%s p0=%s lev=%s pp=%s" % (c["v"], c["j"], c["p0"], c["lev"], c["pp"]),
                      "build_tree on the scripted target: %s" % m["why"], {"direction": "replay", "spec": "Replay_NutsTree", "rows": m["rows"], "mismatch": m})
    # binding self-test: a script whose expected n' is off by one must be reported
    c0 = next(r_ for r_ in rows if r_["j"] == 1 and r_["n"] == 2)
    wrong = [dict(r_, n=r_["n"] - 1) for r_ in rows if (r_["v"], r_["j"], r_["p0"], r_["lev"], r_["pp"]) == (c0["v"], c0["j"], c0["p0"], c0["lev"], c0["pp"])]
    rs = ctx.harness(["c03", "replay", ctx.write_ndjson("bt_self.ndjson", wrong)])[-1]
    ctx.selftest("replay: expected n' of a scripted tree lowered by one", len(rs["bad"]) > 0)
    d = ctx.path("nuts")
    res = ctx.harness(["c03", "record", "--seed", ctx.seed, "--dir", d] + (["--thorough"] if thorough else []), timeout=3000)[-1]
    jobs = res["jobs"]
    allev, bounds = [], []
    cov = {"transitions": 0, "leaves": 0, "merges": 0, "early_returns": 0, "diverged_leaves": 0, "inner_uturns": 0, "max_tree_depth": 0}
    for jb in jobs:
        if jb["panic"]:
            ctx.violation("nuts-panic %s" % jb["label"], "NUTS run on %s panicked: %s" % (jb["label"], jb["panic"][:200]),
                          {"direction": "trace", "job": jb})
        evs = [json.loads(x) for x in open(jb["path"]).read().splitlines()]
        bounds.append((len(allev), len(allev) + len(evs), jb["label"]))
        allev += evs
        cov["transitions"] += jb["transitions"]; cov["leaves"] += jb["leaves"]; cov["merges"] += jb["merges"]
        cov["early_returns"] += jb["early"]; cov["diverged_leaves"] += jb["diverged_leaves"]; cov["inner_uturns"] += jb["uturn_inner"]
        cov["max_tree_depth"] = max(cov["max_tree_depth"], jb["depth_max"])
    pat = {"merge_first_half_empty": 0, "merge_second_half_empty": 0, "merge_both_empty": 0, "merge_second_half_stopped": 0,
           "merge_chose_second": 0, "merge_in_backward_subtree": 0, "doubling_accepted": 0, "doubling_of_stopped_subtree": 0,
           "doubling_without_admissible_point": 0, "leaf_outside_slice_not_diverged": 0, "leaf_backward": 0}
    for e in allev:
        if e["e"] == "merge":
            pat["merge_first_half_empty"] += e["n1"] == 0 and e["n2"] > 0
            pat["merge_second_half_empty"] += e["n1"] > 0 and e["n2"] == 0
            pat["merge_both_empty"] += e["n1"] == 0 and e["n2"] == 0
            pat["merge_second_half_stopped"] += e["s2"] == 0
            pat["merge_chose_second"] += e["cand"] == e["c2"]
            pat["merge_in_backward_subtree"] += e["hi"] <= 0
        elif e["e"] == "double":
            pat["doubling_accepted"] += bool(e["accepted"])
            pat["doubling_of_stopped_subtree"] += e["sp"] == 0
            pat["doubling_without_admissible_point"] += e["np"] == 0
        elif e["e"] == "leaf":
            pat["leaf_outside_slice_not_diverged"] += e["n"] == 0 and e["s"] == 1
            pat["leaf_backward"] += e["v"] == -1
    cov.update({k: int(v) for k, v in pat.items()})
    ctx.cov["nuts_actions_exercised"] = cov
    missing = [k for k in ("early_returns", "diverged_leaves", "inner_uturns", "merge_first_half_empty", "merge_second_half_empty",
                           "merge_both_empty", "merge_second_half_stopped", "doubling_of_stopped_subtree") if cov[k] == 0]
    if cov["max_tree_depth"] < 5:
        missing.append("tree depth >= 5")
    ctx.cov["nuts_actions_not_exercised"] = missing
    ctx.cov["evaluations"] += len(allev)
    ctx.cov["distinct_nontrivial"] += sum(jb["moved"] for jb in jobs)
    # validate job by job from the first failure on, so that every failing target is reported
    start = 0
    guard = 0
    while start < len(allev) and guard < 30:
        guard += 1
        tp = ctx.write_ndjson("nuts_all.ndjson", allev[start:])
        ok, matched, run_ = ctx.validate_trace("Trace_NutsTree", tp, timeout=3000)
        if ok:
            ctx.cov["traces_validated_against_impl"] += sum(1 for b in bounds if b[0] >= start)
            break
        pos = start + (matched or 0)
        lo, hi, label = next(b for b in bounds if b[0] <= pos < b[1])
        bad = allev[pos]
        ctx.cov["traces_validated_against_impl"] += sum(1 for b in bounds if start <= b[0] and b[1] <= lo)
        ctx.violation("nuts-trace %s event=%s" % (label, bad["e"]),
                      "NUTS event %d of the run on %s is not a step of NutsTree.tla (%s): %s" % (pos - lo, label, run_.violated or "no action matches", json.dumps(bad)[:300]),
                      {"direction": "trace", "spec": "Trace_NutsTree", "label": label, "first_unmatched_index": pos - lo, "event": bad,
                       "trace": allev[lo:pos + 1][-400:] if pos - lo > 400 else allev[lo:pos + 1]})
        start = hi
    ctx.sample({"events": allev[:6]})
    # binding self-tests: corrupt a merge decision / a leaf's slice flag
    rnd = random.Random(ctx.seed)
    lo, hi, label = bounds[0]
    evs = json.loads(json.dumps(allev[lo:hi]))
    cands = [i for i, e in enumerate(evs) if e["e"] == "leaf" and e["dj_sign"] == 1 and e["n"] == 1]
    if cands:
        i = rnd.choice(cands)
        evs[i]["n"] = 0
        okc, _, _ = ctx.validate_trace("Trace_NutsTree", ctx.write_ndjson("nuts_c1.ndjson", evs))
        ctx.selftest("trace: a slice-admissible leaf logged with n' = 0", not okc)
    evs = json.loads(json.dumps(allev[lo:hi]))
    cands = [i for i, e in enumerate(evs) if e["e"] == "double" and e["accepted"]]
    if cands:
        i = rnd.choice(cands)
        evs[i]["sp"] = 0
        okc, _, _ = ctx.validate_trace("Trace_NutsTree", ctx.write_ndjson("nuts_c2.ndjson", evs[: i + 1]))
        ctx.selftest("trace: a candidate accepted from a subtree that stopped", not okc)
    ctx.cov["rule"] = ("NutsTree.tla: every oracle pattern (slice, divergence, U-turn, random choices) to the configured depth, invariants P1/P2/extent/counts/uniform "
                       "selection (wrong merge weight = negative control); build_tree replayed on scripted targets (Replay_NutsTree.tla); traces: Gaussians dim 1..8 with random precision, library Gaussian and Rosenbrock, funnel, "
                       "steep divergent, half-line (NaN region), cliffs (incl. jumps of +1500 / +3200), starts 120..220 sigma out in the tail (leaves thousands of units above the slice level), forced tiny/huge step sizes (tree depth up to 10), f32 and f64; non-trivial = transitions that moved")
    ctx.cov["exhaustive"] = False


def replay_scripts(ctx, rows, per_shard=40000, workers=4):
    """`c03 replay` in shards of whole scripts: burn-autodiff keeps every graph node of a tensor that is never differentiated
    registered for the life of the process (20 GB after 1.8 million build_tree calls), so one process per 40 000 scripts."""
    from concurrent.futures import ThreadPoolExecutor
    groups = {}
    for r_ in rows:
        groups.setdefault(json.dumps([r_["v"], r_["j"], r_["p0"], r_["lev"], r_["pp"]]), []).append(r_)
    keys = sorted(groups)
    shards = [[r_ for k in keys[i:i + per_shard] for r_ in groups[k]] for i in range(0, len(keys), per_shard)]
    paths = [ctx.write_ndjson("bt_cases_%03d.ndjson" % i, sh_) for i, sh_ in enumerate(shards)]
    with ThreadPoolExecutor(max_workers=workers) as ex:
        parts = list(ex.map(lambda p_: ctx.harness(["c03", "replay", p_], timeout=3000)[-1], paths))
    res = {"bad": []}
    for part in parts:
        for k, v in part.items():
            if k == "bad":
                res["bad"] += v
            elif isinstance(v, bool):
                res[k] = v
            elif isinstance(v, (int, float)):
                res[k] = res.get(k, 0) + v
    return res


def replay(ctx, path):
    body = json.load(open(path))
    if "trace" in body:
        ok, _, _ = ctx.validate_trace("Trace_NutsTree", ctx.write_ndjson("t.ndjson", body["trace"]))
        if not ok:
            ctx.violation(body["key"], body["what"], body)
    elif "rows" in body:
        rs = ctx.harness(["c03", "replay", ctx.write_ndjson("bt_replay.ndjson", body["rows"])])[-1]
        ctx.cov["evaluations"] += rs["evaluations"]
        if rs["bad"]:
            ctx.violation(body["key"], body["what"], body)
    else:
        raise vlib.ToolError("re-run: python3 bin/check C03 --tier quick")
    ctx.sample({"replayed": path})
