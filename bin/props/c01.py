"""C01 — Metropolis-Hastings acceptance rule / detailed balance (DESIGN 5, C01)."""
import json
import random


def run(ctx):
    thorough = ctx.tier == "thorough"
    ctx.assumptions += [
        "ln is monotone: 'ln u < ln r' is decided as 'u < r' over integers (MHBalance, Trace_MH)",
        "finite log-values in replay are small integers, draws are 0, 2^-j, 1-ulp: no finite tie exists; "
        "the only exact ties are IEEE-kind ties (-inf vs -inf), which are asserted",
        "the acceptance draw is observed by cloning the chain's pub rng before the step (one uniform per step)",
        "rule U: within 2 quanta (2^-20) of the threshold either outcome is accepted in trace validation",
    ]
    # 1. design level: the step rule on all IEEE-kind tables; detailed balance on all 3-state tables
    r = ctx.tlc("MC_MH", workers=8, timeout=900)
    ctx.require_ok(r, "MC_MH")
    r = ctx.tlc("MHBalance", cfg="MHBalance.cfg" if thorough else "MHBalance_quick.cfg", workers=8, timeout=1500)
    ctx.require_ok(r, "MHBalance")
    ctx.tlc("MHBalance", cfg="MHBalance_neg.cfg", workers=4, expect_violation="NegControl_NoHastings")

    # 2. spec -> impl: every case of Gen_MH through the real MHMarkovChain::step
    g = ctx.tlc("Gen_MH", workers=1, coverage=False, timeout=600)
    ctx.require_ok(g, "Gen_MH")
    cases = g.tagged("REPLAY")
    if len(cases) < 1000:
        raise_tool("Gen_MH produced only %d cases" % len(cases))
    p = ctx.write_ndjson("mh_cases.ndjson", cases)
    res = ctx.harness(["c01", "replay", p])[-1]
    ctx.cov["evaluations"] += res["evaluations"]
    ctx.cov["traces_validated_against_impl"] += len(cases)
    ctx.cov["distinct_nontrivial"] += sum(1 for c in cases if c["acc"])
    ctx.sample({"replay_case": cases[len(cases) // 3]})
    for m in res["mismatches"]:
        c = m["case"]
        key = "mh-step lpx=%s lpy=%s lqf=%s lqb=%s u=%s %s" % (
            kv(c["lpx"]), kv(c["lpy"]), kv(c["lqf"]), kv(c["lqb"]), c["u"], m["types"])
        ctx.violation(key, "MH step: spec expects %s, implementation gave %s" % (m["expected_state"], m["observed"]),
                      {"direction": "replay", "spec": "Gen_MH", "case": c, "types": m["types"], "observed": m["observed"]})
    if res["bad"] and not res["mismatches"]:
        raise_tool("bad>0 without mismatch list")
    # binding self-test (independent of whether /repo is right): the same case with both
    # expectations; whatever the implementation does, exactly one of them must be flagged
    c0 = next(c for c in cases if c["acc"] and c["lpy"]["k"] == "fin")
    flipped = dict(c0)
    flipped["acc"] = not c0["acc"]
    pf = ctx.write_ndjson("mh_flipped.ndjson", [c0, flipped])
    rf = ctx.harness(["c01", "replay", pf])[-1]
    ctx.selftest("replay: one case with both expectations, one must be flagged", rf["bad"] > 0)

    # 3. impl -> spec: random finite-state chains validated against Trace_MH
    n_chains, steps = (64, 2000) if thorough else (12, 600)
    tp = ctx.path("mh_trace.ndjson")
    s = ctx.harness(["c01", "record", "--seed", ctx.seed, "--chains", n_chains, "--steps", steps, "--out", tp])[-1]
    ok, matched, run_ = ctx.validate_trace("Trace_MH", tp, timeout=900)
    ctx.cov["evaluations"] += s["events"]
    ctx.cov["distinct_nontrivial"] += s["moved"]
    lines = open(tp).read().splitlines()
    ctx.sample({"trace_event": json.loads(lines[1])})
    ctx.cov["repositioned_through_public_field"] = sum(1 for x in lines if '"e":"set"' in x.replace(" ", ""))
    if ok:
        ctx.cov["traces_validated_against_impl"] += n_chains
    else:
        bad = json.loads(lines[matched]) if matched is not None and matched < len(lines) else None
        ctx.violation("mh-trace %s" % json.dumps(bad, sort_keys=True),
                      "recorded MH step is not a behaviour of MH.tla (or invariant %s)" % run_.violated,
                      {"direction": "trace", "spec": "Trace_MH", "first_unmatched_index": matched,
                       "event": bad, "trace": lines[max(0, (matched or 0) - 5):(matched or 0) + 1]})
    # binding self-test: corrupt one recorded field of an unambiguous step
    rnd = random.Random(ctx.seed)
    evs = [json.loads(x) for x in lines]
    idx = [i for i, e in enumerate(evs) if e["e"] == "step" and e["xn"] != e["x"] and e["wx"] > 0]
    if idx:
        i = rnd.choice(idx)
        evs[i]["xn"] = evs[i]["x"]
        evs[i]["uq"] = 0
        evs[i]["wy"], evs[i]["wx"] = max(evs[i]["wy"], evs[i]["wx"]), min(evs[i]["wy"], evs[i]["wx"])
        pc = ctx.write_ndjson("mh_corrupt.ndjson", evs[: i + 1])
        okc, _, _ = ctx.validate_trace("Trace_MH", pc)
        ctx.selftest("trace: certain acceptance recorded as rejection", not okc)
    ctx.cov["rule"] = ("replay: all 8^4 IEEE-kind/value tables x 7 draw classes x 5 state/float type combinations "
                       "(TLC-enumerated); non-trivial = cases in which the specification moves the chain. "
                       "trace: random integer-weight targets with asymmetric table proposals, the chain repositioned through its public current_state field about every 6th step; non-trivial = steps that moved")
    ctx.cov["exhaustive"] = True


def kv(v):
    return v["k"] if v["k"] != "fin" else str(v["v"])


def raise_tool(msg):
    import vlib
    raise vlib.ToolError(msg)


def replay(ctx, path):
    body = json.load(open(path))
    if body.get("direction") == "replay":
        p = ctx.write_ndjson("case.ndjson", [body["case"]])
        res = ctx.harness(["c01", "replay", p])[-1]
        ctx.cov["evaluations"] += res["evaluations"]
        for m in res["mismatches"]:
            ctx.violation(body["key"], "MH step: spec expects %s, implementation gave %s" % (m["expected_state"], m["observed"]), body)
    else:
        # a recorded trace prefix: re-validate it (the trace is data; the spec decides)
        rows = [json.loads(x) for x in body["trace"]]
        if rows and rows[0].get("e") != "init":
            rows = [{"e": "init", "x": rows[0]["x"], "wx": rows[0]["wx"], "types": "replay"}] + rows
        p = ctx.write_ndjson("t.ndjson", rows)
        ok, matched, _ = ctx.validate_trace("Trace_MH", p)
        if not ok:
            ctx.violation(body["key"], body["what"], body)
    ctx.sample({"replayed": path})
