"""Shared by C11 (split R-hat, run summary) and C12 (ESS): TLC enumerates sample arrays and the
exact expected fractions from spec/Stats.tla; the harness feeds them to the real functions."""
import vlib


def brief(m):
    return str(m.get("case"))[:160] + " " + m.get("variant", "")


def run_small(ctx, cfgs, which):
    total_cases = 0
    for cfg in cfgs:
        g = ctx.tlc("MC_Stats", cfg="MC_Stats_%s.cfg" % cfg, workers=8, timeout=3000)
        ctx.require_ok(g, "MC_Stats_" + cfg)
        cases = g.tagged("REPLAY")
        if len(cases) < 100:
            raise vlib.ToolError("MC_Stats_%s produced %d cases" % (cfg, len(cases)))
        total_cases += len(cases)
        res = replay_sharded(ctx, "st_%s" % cfg, cases)
        account(ctx, res, cases, which, "MC_Stats_" + cfg)
        if cfg == cfgs[0]:
            ctx.sample({"array_case": next(c for c in cases if c["def"] and c["out"] > 0)})
            selftest(ctx, cases, which)
    return total_cases


def replay_sharded(ctx, name, cases, per_shard=20000, workers=6):
    """`stats replay` of many small arrays: the per-call overhead of the implementation (rayon, FFT set-up) makes half a
    million arrays take hours in one process; shards run side by side, each with a small rayon pool."""
    from concurrent.futures import ThreadPoolExecutor
    if len(cases) <= per_shard:
        return ctx.harness(["stats", "replay", ctx.write_ndjson(name + ".ndjson", cases)], timeout=3000)[-1]
    shards = [cases[i:i + per_shard] for i in range(0, len(cases), per_shard)]
    paths = [ctx.write_ndjson("%s_%03d.ndjson" % (name, i), sh_) for i, sh_ in enumerate(shards)]
    with ThreadPoolExecutor(max_workers=workers) as ex:
        parts = list(ex.map(lambda p_: ctx.harness(["stats", "replay", p_], timeout=3000, env={"RAYON_NUM_THREADS": 2})[-1], paths))
    res = {}
    for part in parts:
        for k, v in part.items():
            if isinstance(v, bool):
                res[k] = v
            elif isinstance(v, (int, float)):
                res[k] = res.get(k, 0) + v
            elif isinstance(v, list):
                res.setdefault(k, [])
                res[k] += v
    return res


def run_big(ctx, which):
    g = ctx.tlc("Gen_StatsBig", cfg="Gen_StatsBig.cfg" if ctx.tier == "thorough" else "Gen_StatsBig_quick.cfg",
                workers=4, timeout=1800, coverage=False)
    ctx.require_ok(g, "Gen_StatsBig")
    cases = g.tagged("REPLAY")
    if len(cases) < 10:
        raise vlib.ToolError("Gen_StatsBig produced %d cases" % len(cases))
    res = ctx.harness(["stats", "replay", ctx.write_ndjson("st_big.ndjson", cases), "--big"], timeout=1800)[-1]
    account(ctx, res, cases, which, "Gen_StatsBig")
    c = cases[0]
    ctx.sample({"long_array_case": {k: c[k] for k in c if k != "a"}, "first_draws": c["a"][0][:24]})
    return len(cases)


def account(ctx, res, cases, which, src):
    ctx.cov["evaluations"] += res["evaluations"]
    ctx.cov["traces_validated_against_impl"] += len(cases)
    if which == "rhat":
        ctx.cov["distinct_nontrivial"] += sum(1 for c in cases if c["def"] and c["rn"] != c["rd"])
        for m in res["rhat_bad"]:
            ctx.violation("rhat " + brief(m), "split R-hat differs from sqrt(var+/W) of Stats.tla: %s" % {k: m[k] for k in m if k != "case"},
                          {"direction": "replay", "spec": src, "mismatch": m, "kind": "rhat"})
        for m in res["summary_bad"]:
            ctx.violation("runstats " + brief(m), "run summary differs from the per-parameter values: %s" % {k: m[k] for k in m if k != "case"},
                          {"direction": "replay", "spec": src, "mismatch": m, "kind": "summary"})
        ctx.cov.setdefault("rhat_values_checked", 0)
        ctx.cov["rhat_values_checked"] += res["rhat_checked"]
    else:
        ctx.cov["distinct_nontrivial"] += sum(1 for c in cases if c["def"] and not c["frag"] and (c.get("out", 0) > 0 or len(c.get("pairs", [])) > 0))
        for m in res["ess_bad"]:
            ctx.violation("ess " + brief(m), "ESS differs from m n / tau of Stats.tla: %s" % {k: m[k] for k in m if k != "case"},
                          {"direction": "replay", "spec": src, "mismatch": m, "kind": "ess"})
        for m in res["rhat_bad"]:
            if "panic" in m:
                ctx.violation("ess-panic " + brief(m), "diagnostics panicked: %s" % m["panic"],
                              {"direction": "replay", "spec": src, "mismatch": m, "kind": "panic"})
        ctx.cov.setdefault("ess_values_checked", 0)
        ctx.cov["ess_values_checked"] += res["ess_checked"]
        ctx.cov.setdefault("ess_fragile_skipped", 0)
        ctx.cov["ess_fragile_skipped"] += res["ess_fragile_skipped"]


def selftest(ctx, cases, which):
    """Perturb the expectation of one case; the harness must flag it."""
    c = dict(next(c for c in cases if c["def"] and not c["frag"] and c.get("out", 0) > 0 and c["rn"] != c["rd"]))
    if which == "rhat":
        c["rn"], c["rnu"] = c["rn"] * 2, c["rnu"] * 2
    else:
        c["out"] = c["out"] * 2
    res = ctx.harness(["stats", "replay", ctx.write_ndjson("st_self.ndjson", [c])])[-1]
    ctx.selftest("replay: doubled expected %s of one array" % which,
                 len(res["rhat_bad" if which == "rhat" else "ess_bad"]) > 0)


def replay(ctx, path, which):
    import json
    body = json.load(open(path))
    m = body["mismatch"]
    case = m["case"]
    if "a" in case:
        # re-derive the expectation with TLC is not needed: the array is tiny, re-run the config that contains it
        pass
    # generic: re-run the quick tier of the property and report violations with the same key
    raise vlib.ToolError("use: python3 bin/check %s --tier quick (replay files of the stats checks carry the failing "
                         "array under mismatch.case; the check is deterministic and re-finds it)" % ctx.pid)
