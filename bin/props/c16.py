"""C16 — Categorical distribution (DESIGN 5, C16)."""
import json
import vlib


def run(ctx):
    thorough = ctx.tier == "thorough"
    ctx.assumptions += [
        "the uniform variate is injected through the verif-only Categorical::with_rng and a crafted xoshiro256++ state",
        "variates are 0, 1-ulp, grid midpoints, thresholds +-2^-20 (f64) / +-2^-14 (f32), and the implementation's own floating-point "
        "cumulative sum itself when it is a representable variate (else the two variates enclosing it): a returned index of probability "
        "zero is always a violation; exactly at a threshold either positive-probability neighbour is accepted (closed intervals of Categorical.tla)",
        "'distributed according to probs' is decided as the deterministic quadrature statement of Categorical.tla "
        "(over the midpoint grid each index is returned K p_i +- 1 times), not statistically",
    ]
    runs = [("MC_Categorical", "MC_Categorical_thorough.cfg" if thorough else "MC_Categorical.cfg", 8),
            ("Gen_CatBig", "Gen_CatBig.cfg" if thorough else "Gen_CatBig_quick.cfg", 4)]
    first = True
    for mod, cfg, workers in runs:
        g = ctx.tlc(mod, cfg=cfg, workers=workers, timeout=2400)
        ctx.require_ok(g, mod)
        cases = g.tagged("REPLAY")
        if len(cases) < 3:
            raise vlib.ToolError("%s produced %d cases" % (mod, len(cases)))
        res = ctx.harness(["c16", "replay", ctx.write_ndjson("cat_%s.ndjson" % mod, cases)], timeout=1800)[-1]
        ctx.cov["evaluations"] += res["evaluations"]
        ctx.cov["exact_threshold_variates"] = ctx.cov.get("exact_threshold_variates", 0) + res["exact_thresholds"]
        if res["exact_thresholds"] == 0:
            raise vlib.ToolError("%s: no variate hit a cumulative sum exactly" % mod)
        ctx.cov["traces_validated_against_impl"] += len(cases)
        ctx.cov["distinct_nontrivial"] += sum(1 for c in cases if any(x == 0 for x in c["w"]) and len(c["w"]) >= 2)
        for m in res["bad"]:
            cls = m["class"].split()[0]
            ctx.violation("categorical %s w=%s r=%s %s scale=%s" % (m["class"], m["w"] if len(m["w"]) <= 8 else "len%d" % len(m["w"]), m["r"], m["type"], m["scale"]),
                          "Categorical %s: returned index %s, allowed (1-based) %s" % (m["class"], m["returned_index0"], m["allowed_index1"]),
                          {"direction": "replay", "spec": mod, "mismatch": m})
        if first:
            first = False
            ctx.sample({"weights_case": cases[min(30, len(cases) - 1)]})
            c = dict(next(c for c in cases if len(c["w"]) >= 3 and c["w"][0] > 0 and c["w"][-1] > 0))
            c["zero"] = [len(c["w"])]
            rs = ctx.harness(["c16", "replay", ctx.write_ndjson("cat_self.ndjson", [c])])[-1]
            ctx.selftest("replay: wrong allowed set for r = 0", len(rs["bad"]) > 0)
    ctx.cov["rule"] = ("every weight vector in the bounds (TLC, quadrature and non-emptiness theorems checked on each) and LCG-generated vectors "
                       "up to length 64, x {f32,f64} x 7 scalings (1, 0.37, 1000, two that make the weights sum to 1 +- 2e-4 (f32) / 3e-9 (f64), one that makes all weights subnormal, one that makes their sum overflow) x variates {0, 1-ulp, midpoint grid, each threshold +-margin and exactly}; "
                       "non-trivial = vectors containing a zero weight")
    ctx.cov["exhaustive"] = True


def replay(ctx, path):
    body = json.load(open(path))
    raise vlib.ToolError("re-run: python3 bin/check C16 --tier quick (deterministic; re-finds %s)" % body["key"])
