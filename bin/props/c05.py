"""C05 — Gibbs sweep (DESIGN 5, C05)."""
import json
import random
import vlib


def run(ctx):
    thorough = ctx.tier == "thorough"
    ctx.assumptions += [
        "values are opaque tokens bound by the harness to adversarial bit patterns (NaN, -0.0, inf, extremes)",
        "the user's Conditional is the harness's recording conditional; what it is shown and returns is the trace",
    ]
    # 1. design level
    r = ctx.tlc("GibbsJoint", cfg="GibbsJoint_thorough.cfg" if thorough else "GibbsJoint.cfg", workers=8)
    ctx.require_ok(r, "GibbsJoint")
    ctx.tlc("GibbsJoint", cfg="GibbsJoint_neg.cfg", workers=4, expect_violation="NegControl_StaleSnapshot")
    # 2. spec -> impl: all scripts of MC_Gibbs (also checks CallOrder / OnlyOwnCoordinate on the model)
    g = ctx.tlc("MC_Gibbs", cfg="MC_Gibbs_thorough.cfg" if thorough else "MC_Gibbs.cfg", workers=1, timeout=900)
    ctx.require_ok(g, "MC_Gibbs")
    beh = g.tagged("REPLAY")
    if len(beh) < 50:
        raise vlib.ToolError("MC_Gibbs produced %d behaviours" % len(beh))
    p = ctx.write_ndjson("gibbs_beh.ndjson", beh)
    res = ctx.harness(["c05", "replay", p])[-1]
    ctx.cov["evaluations"] += res["evaluations"]
    ctx.cov["traces_validated_against_impl"] += len(beh)
    ctx.cov["distinct_nontrivial"] += sum(1 for b in beh if b["dim"] >= 2 and len(set(b["script"])) > 1)
    ctx.sample({"replay_behaviour": beh[len(beh) // 2]})
    for m in res["mismatches"]:
        b = m["behaviour"]
        ctx.violation("gibbs-replay dim=%d script=%s %s" % (b["dim"], b["script"], m["type"]),
                      "Gibbs sweep: expected final %s, observed %s (calls %s)" % (b["final"], m["observed_final"], m["observed_calls"][:4]),
                      {"direction": "replay", "spec": "MC_Gibbs", "behaviour": b, "type": m["type"]})
    b0 = next(b for b in beh if b["dim"] >= 2)
    bf = dict(b0)
    bf["final"] = [(v + 1) % 2 for v in b0["final"]]
    rf = ctx.harness(["c05", "replay", ctx.write_ndjson("gf.ndjson", [b0, bf])])[-1]
    ctx.selftest("replay: one behaviour with the true and a perturbed final state", rf["bad"] > 0)
    # 3. impl -> spec
    n, steps, maxdim = (40, 30, 64) if thorough else (10, 8, 64)
    tp = ctx.path("gibbs_trace.ndjson")
    s = ctx.harness(["c05", "record", "--seed", ctx.seed, "--chains", n, "--steps", steps, "--maxdim", maxdim, "--out", tp])[-1]
    ok, matched, run_ = ctx.validate_trace("Trace_Gibbs", tp, timeout=900)
    lines = open(tp).read().splitlines()
    ctx.cov["evaluations"] += s["events"]
    ctx.cov["distinct_nontrivial"] += sum(1 for x in lines if '"call"' in x)
    ctx.sample({"trace_event": json.loads(lines[1])})
    if ok:
        ctx.cov["traces_validated_against_impl"] += sum(1 for x in lines if '"init"' in x)
    else:
        bad = json.loads(lines[matched]) if matched is not None and matched < len(lines) else None
        ctx.violation("gibbs-trace %s" % json.dumps(bad, sort_keys=True)[:300],
                      "recorded Gibbs call/step is not a behaviour of Gibbs.tla (%s)" % (run_.violated or "no matching action"),
                      {"direction": "trace", "spec": "Trace_Gibbs", "first_unmatched_index": matched, "event": bad,
                       "trace": lines[: (matched or 0) + 1][-200:]})
    # binding self-test: make one 'given' stale (snapshot from the start of the sweep)
    evs = [json.loads(x) for x in lines]
    rnd = random.Random(ctx.seed)
    cand = [i for i, e in enumerate(evs) if e["e"] == "call" and e["i"] >= 1 and evs[i - 1]["e"] == "call"
            and evs[i - 1]["given"] != e["given"]]
    if cand:
        i = rnd.choice(cand)
        evs[i]["given"] = evs[i - 1]["given"]
        okc, _, _ = ctx.validate_trace("Trace_Gibbs", ctx.write_ndjson("gc.ndjson", evs[: i + 1]))
        ctx.selftest("trace: a call shown the stale snapshot instead of the freshest state", not okc)
    ctx.cov["rule"] = ("replay: every return-value script TLC enumerates (dims 1..3, 2 sweeps) x 4 element types; "
                       "non-trivial = dimension >= 2 with non-constant script. trace: recorded conditional calls of chains "
                       "of dimension 1..64 and of whole GibbsSampler runs on rayon threads; non-trivial = conditional calls validated")
    ctx.cov["exhaustive"] = True


def replay(ctx, path):
    body = json.load(open(path))
    if body.get("direction") == "replay":
        res = ctx.harness(["c05", "replay", ctx.write_ndjson("b.ndjson", [body["behaviour"]])])[-1]
        ctx.cov["evaluations"] += res["evaluations"]
        for m in res["mismatches"]:
            ctx.violation(body["key"], body["what"], body)
    else:
        rows = [json.loads(x) for x in body["trace"]]
        k = max([i for i, e in enumerate(rows) if e["e"] == "init"] or [0])
        ok, _, _ = ctx.validate_trace("Trace_Gibbs", ctx.write_ndjson("t.ndjson", rows[k:]))
        if not ok:
            ctx.violation(body["key"], body["what"], body)
    ctx.sample({"replayed": path})
