"""C15 — built-in densities, gradients and proposal density (DESIGN 5, C15)."""
import json
import vlib


def run(ctx):
    thorough = ctx.tier == "thorough"
    ctx.assumptions += [
        "inputs are integer lattice points with dyadic scalings 2^e (exact in f32/f64); expected values are exact affine forms "
        "r + a ln(2 pi) + b ln(det) + c ln 2 and rational gradients computed by TLC; only the three logarithms are evaluated in f64",
        "tolerance: f32-level (3e-5 x magnitude of the summed terms) for the tensor-based targets on the lattice, 1e-10 relative for the "
        "pure-f64 ndarray/scalar paths; the f64 tensor target is additionally evaluated translated by (12345.7, -9876.5), an offset f32 cannot "
        "hold, with tolerance 1e-6 (its parameters used to be rounded to f32 by Tensor::from_floats: defect D16)",
        "seeded proposal draws are compared with from + std z, z from rand's SmallRng::seed_from_u64 + rand_distr::StandardNormal (the generator "
        "the documentation names); unseeded draws are only required to be finite",
        "TLC proves on the lattice that the specification's gradient is the gradient of the specification's log-density "
        "(central differences exact for quadratics, 5-point stencil exact for the quartic Rosenbrock forms)",
    ]
    g = ctx.tlc("MC_Dist", cfg="MC_Dist_thorough.cfg" if thorough else "MC_Dist.cfg", workers=8, timeout=2400)
    ctx.require_ok(g, "MC_Dist")
    cases = g.tagged("REPLAY")
    if len(cases) < 300:
        raise vlib.ToolError("MC_Dist produced %d cases" % len(cases))
    # the proposal's random stream as a state machine (PropStream.tla): every history of draw / set_seed / clone operations
    gs = ctx.tlc("PropStream", cfg="PropStream_thorough.cfg" if thorough else "PropStream.cfg", workers=4, timeout=2400)
    ctx.require_ok(gs, "PropStream")
    streams = gs.tagged("REPLAY")
    if len(streams) < 1000:
        raise vlib.ToolError("PropStream produced %d histories" % len(streams))
    cases = cases + streams
    res = ctx.harness(["c15", "replay", ctx.write_ndjson("dist.ndjson", cases)], timeout=2400)[-1]
    ctx.cov["evaluations"] += res["evaluations"]
    ctx.cov["traces_validated_against_impl"] += len(cases)
    ctx.cov["distinct_nontrivial"] += sum(1 for c in cases if (c["kind"] == "gauss" and c["rn"] != 0) or
                                          (c["kind"] == "iso" and c["ssd"] > 0) or (c["kind"].startswith("rosen") and c["v"] != 0) or
                                          (c["kind"] == "stream" and any(o["op"] == "draw" and o["seed"] != "os" and
                                                                         any(q["op"] == "draw" for q in c["hist"][:k])
                                                                         for k, o in enumerate(c["hist"]))))
    for k in ("gauss", "iso", "rosen2", "rosenN"):
        ctx.sample({"case": next(c for c in cases if c["kind"] == k)})
    for m in res["bad"]:
        c = m["case"]
        brief = {k: c[k] for k in c if k in ("kind", "cov", "m", "x", "e", "D", "from", "to", "A", "B")}
        if c["kind"] == "stream":
            brief["ops"] = ["%s%d%s" % (o["op"][0], o["o"], o["seed"] if o["op"] == "seed" else "") for o in c["hist"]]
        ctx.violation("dist %s %s" % (m["what"], json.dumps(brief, sort_keys=True)),
                      "%s = %s, definition gives %s (tolerance %s)" % (m["what"], m["observed"], m.get("expected"), m.get("tol")),
                      {"direction": "replay", "spec": "MC_Dist", "mismatch": m})
    c = dict(next(c for c in cases if c["kind"] == "rosen2" and c["v"] != 0))
    c["v"] = c["v"] - 1
    rs = ctx.harness(["c15", "replay", ctx.write_ndjson("dist_self.ndjson", [c])])[-1]
    ctx.selftest("replay: expected Rosenbrock value off by one", len(rs["bad"]) > 0)
    # binding of the stream replay: a history whose last seeded draw is annotated with the wrong position must be reported
    h = json.loads(json.dumps(next(c for c in streams if c["hist"][-1]["op"] == "draw" and c["hist"][-1]["seed"] != "os")))
    h["hist"][-1]["pos"] += 1
    rs = ctx.harness(["c15", "replay", ctx.write_ndjson("stream_self.ndjson", [h])])[-1]
    ctx.selftest("replay: seeded draw annotated with the wrong stream position", len(rs["bad"]) > 0)
    ctx.cov["rule"] = ("every lattice case of MC_Dist (covariances incl. condition numbers ~1e4, means, points, dyadic scalings 2^-10..2^13, "
                       "isotropic dims 1..32 with std 2^-9..2^9, Rosenbrock 2-D/N-D; every history of <= 5 (thorough 7) draw / set_seed / clone operations on "
                       "the proposal, PropStream.tla) x every public evaluation path (ndarray f32/f64, "
                       "tensor batched/single/gradient on both backends, batch sizes 1..64); non-trivial = cases with a non-zero exponent term")
    ctx.cov["exhaustive"] = True


def replay(ctx, path):
    body = json.load(open(path))
    res = ctx.harness(["c15", "replay", ctx.write_ndjson("one.ndjson", [body["mismatch"]["case"]])])[-1]
    ctx.cov["evaluations"] += res["evaluations"]
    for m in res["bad"]:
        if m["what"] == body["mismatch"]["what"]:
            ctx.violation(body["key"], body["what"], body)
    ctx.sample({"replayed": path})
