"""Shared machinery of /verif/bin/check: building the conformance harness against /repo's
working tree, running TLC (model checking, behaviour generation, trace validation), known
findings, replay files, evidence.  See DESIGN.md sections 2 and 9."""
import fcntl
import hashlib
import json
import os
import re
import shutil
import subprocess
import sys
import time

ROOT = os.path.dirname(os.path.dirname(os.path.abspath(__file__)))
SPEC = os.path.join(ROOT, "spec")
WORK = os.path.join(ROOT, ".work")
HARNESS = os.path.join(ROOT, "harness")
BIN = os.path.join(HARNESS, "target", "debug", "conform")


def limit_memory():
    """A sampler that never stops doubling a trajectory would otherwise take the whole machine down."""
    import resource
    resource.setrlimit(resource.RLIMIT_AS, (24 << 30, 24 << 30))
LEVEL = "model_checking"


class ToolError(Exception):
    pass


def sh(cmd, **kw):
    return subprocess.run(cmd, stdout=subprocess.PIPE, stderr=subprocess.STDOUT, text=True, **kw)


class TlcRun:
    def __init__(self, out, rc, wall):
        self.out = out
        self.rc = rc
        self.wall = wall
        m = re.search(r"(\d+) states generated, (\d+) distinct states found", out)
        self.generated = int(m.group(1)) if m else 0
        self.distinct = int(m.group(2)) if m else 0
        if not m:
            # simulation mode reports differently
            m2 = re.search(r"The number of states generated: (\d+)", out)
            if m2:
                self.generated = int(m2.group(1))
                self.distinct = int(m2.group(1))
        self.violated = None
        self.kind = None
        m = re.search(r"Error: Invariant (\S+) is violated", out)
        if m:
            self.kind, self.violated = "invariant", m.group(1)
        m = re.search(r"Error: Action property (\S+) is violated", out)
        if m:
            self.kind, self.violated = "property", m.group(1)
        m = re.search(r"Error: Temporal propert(?:y (\S+) was|ies were) violated", out)
        if m:
            self.kind, self.violated = "temporal", (m.group(1) or "temporal")
        if "Error: Deadlock reached" in out:
            self.kind, self.violated = "deadlock", "deadlock"
        m = re.search(r"Error: The postcondition (\S+)?.*(is|was) (false|violated)", out)
        if m or "Error: Evaluating postcondition" in out or "postcondition is false" in out.lower():
            self.kind, self.violated = "postcondition", "postcondition"
        m = re.search(r"Error: Assumption .* is false", out)
        if m:
            self.kind, self.violated = "assumption", "assumption"
        self.finished = "Finished in" in out or "Finished computing" in out
        self.error = ("Error:" in out) or rc not in (0,)
        self.ok = self.finished and not self.error
        # action coverage:  <Name line a, col b to line c, col d of module M>: distinct:generated
        self.actions = {}
        for m in re.finditer(r"^<(\w+) line \d+, col \d+ to line \d+, col \d+ of module (\w+)>: (\d+):(\d+)", out, re.M):
            name = m.group(1)
            self.actions[name] = self.actions.get(name, 0) + int(m.group(4))
        self.prints = []
        for m in re.finditer(r'^<<"(\w+)", (".*")>>$', out, re.M):
            try:
                self.prints.append((m.group(1), json.loads(json.loads(m.group(2)))))
            except Exception:
                pass

    def tagged(self, tag):
        return [p for (t, p) in self.prints if t == tag]

    def tail(self, n=40):
        keep = [l for l in self.out.splitlines() if not l.startswith("  |") and not l.startswith("<<\"")]
        return "\n".join(keep[-n:])


class Ctx:
    def __init__(self, pid, tier, seed):
        self.pid = pid
        self.tier = tier
        self.seed = seed
        self.t0 = time.time()
        self.cov = {
            "states": 0,
            "transitions": 0,
            "traces_validated_against_impl": 0,
            "evaluations": 0,
            "distinct_nontrivial": 0,
            "rule": "",
            "samples": [],
            "exhaustive": False,
            "spec_runs": [],
            "spec_actions_covered": {},
            "binding_selftest": [],
            "notes": [],
        }
        self.assumptions = []
        self.violations = []
        self.known_hits = []
        self.findings = load_findings()
        # checks beyond the listed properties (bin/extra) report deviations under another word and keep their
        # evidence apart: nothing they find is a violation of a listed property
        self.extra = False
        os.makedirs(WORK, exist_ok=True)
        self.scratch = os.path.join(WORK, "%s-%d-%d" % (pid, os.getpid(), int(time.time())))
        os.makedirs(self.scratch, exist_ok=True)
        self._n = 0

    # ------------------------------------------------------------------ build
    def build(self):
        """cargo build of the harness against /repo's *current working tree* (path dependency,
        hooks feature on).  Serialised with a file lock so concurrent checks share one build."""
        lock = open(os.path.join(WORK, "build.lock"), "w")
        fcntl.flock(lock, fcntl.LOCK_EX)
        try:
            ref = os.path.join(HARNESS, "Cargo.lock.ref")
            cur = os.path.join(HARNESS, "Cargo.lock")
            if os.path.exists(ref) and (not os.path.exists(cur) or open(ref).read() != open(cur).read()):
                shutil.copy(ref, cur)
            t = time.time()
            r = sh(["cargo", "build", "--offline", "--quiet"], cwd=HARNESS,
                   env=dict(os.environ, CARGO_NET_OFFLINE="true", CARGO_TERM_COLOR="never"))
            if r.returncode != 0:
                raise ToolError("harness build failed against /repo working tree:\n" + r.stdout[-4000:])
            self.cov["notes"].append("harness rebuilt from /repo working tree in %.1fs" % (time.time() - t))
        finally:
            fcntl.flock(lock, fcntl.LOCK_UN)
            lock.close()
        return BIN

    # --------------------------------------------------------------- Apalache
    def apalache(self, module, cfg, init, inv, length, timeout=1800, expect_error=False):
        """One bounded check of spec/apalache/<module>.tla with Apalache: from `init`, `length` steps, invariant `inv`.
        Used for inductive-invariant proofs (init = the invariant, length = 1).  Returns True iff no error was found;
        anything but a clean OK / a reported invariant violation is a tool error."""
        self._n += 1
        d = os.path.join(SPEC, "apalache")
        outdir = os.path.join(self.scratch, "apalache%d" % self._n)
        t = time.time()
        try:
            r = sh(["timeout", str(timeout), "apalache-mc", "check", "--config=" + cfg, "--init=" + init, "--inv=" + inv,
                    "--length=%d" % length, "--out-dir=" + outdir, module + ".tla"], cwd=d)
        finally:
            pass
        ok = "EXITCODE: OK" in r.stdout and "The outcome is: NoError" in r.stdout
        err = "The outcome is: Error" in r.stdout
        self.cov["spec_runs"].append({"tool": "apalache", "module": module, "cfg": cfg, "init": init, "inv": inv, "length": length,
                                      "outcome": "NoError" if ok else ("Error" if err else "?"), "wall_s": round(time.time() - t, 1)})
        shutil.rmtree(outdir, ignore_errors=True)
        if not ok and not err:
            raise ToolError("apalache %s %s/%s did not finish (timeout %ds?):\n%s" % (module, init, inv, timeout, r.stdout[-1500:]))
        if expect_error:
            if not err:
                raise ToolError("apalache negative control %s %s/%s was NOT refuted" % (module, init, inv))
            return False
        if err:
            raise ToolError("apalache: %s is not inductive / does not imply %s in %s (%s):\n%s" % (init, inv, module, cfg, r.stdout[-1500:]))
        return True

    # -------------------------------------------------------------------- TLC
    def tlc(self, module, cfg=None, workers=6, timeout=900, simulate=None, env=None,
            coverage=True, dfs=False, xmx="6g", count=True, expect_violation=None, depth=None,
            extra=None):
        """Runs TLC on spec/<module>.tla.  `count`: add states/transitions to the evidence.
        `expect_violation`: name of an invariant/property that MUST be reported (negative
        control); anything else is a tool error."""
        self._n += 1
        meta = os.path.join(self.scratch, "tlc%d" % self._n)
        cfg = cfg or (module + ".cfg")
        jopts = "-Xss1g -Xmx" + xmx
        if dfs:
            jopts += " -Dtlc2.tool.queue.IStateQueue=StateDeque"
        e = dict(os.environ, JAVA_TOOL_OPTIONS=jopts)
        if env:
            e.update({k: str(v) for k, v in env.items()})
        cmd = ["timeout", str(timeout), "tlc"]
        cmd += ["-workers", str(workers), "-metadir", meta, "-cleanup", "-noGenerateSpecTE"]
        if coverage:
            cmd += ["-coverage", "1"]
        if simulate:
            cmd += ["-simulate", simulate]
            if depth:
                cmd += ["-depth", str(depth)]
        cmd += ["-seed", str(self.seed)]
        if extra:
            cmd += extra
        cmd += ["-config", cfg, module + ".tla"]
        t = time.time()
        r = sh(cmd, cwd=SPEC, env=e)
        run = TlcRun(r.stdout, r.returncode, time.time() - t)
        shutil.rmtree(meta, ignore_errors=True)
        if r.returncode == 124:
            raise ToolError("TLC timed out on %s after %ds" % (module, timeout))
        rec = {"module": module, "cfg": cfg, "generated": run.generated, "distinct": run.distinct,
               "wall_s": round(run.wall, 1), "mode": "simulate" if simulate else "bfs"}
        if expect_violation:
            rec["negative_control"] = expect_violation
            if run.violated != expect_violation:
                raise ToolError("negative control %s/%s: expected violation of %s, TLC reported %r\n%s"
                                % (module, cfg, expect_violation, run.violated, run.tail()))
            rec["negative_control_fired"] = True
        self.cov["spec_runs"].append(rec)
        if count and not expect_violation:
            self.cov["states"] += run.distinct
            self.cov["transitions"] += run.generated
            for a, n in run.actions.items():
                key = module + "!" + a
                self.cov["spec_actions_covered"][key] = self.cov["spec_actions_covered"].get(key, 0) + n
        return run

    def require_ok(self, run, what):
        """A model-checking run of the *specification alone* must pass; if it does not the
        machinery (spec) is wrong or the design is: that is a tool error, not a verdict on /repo."""
        if not run.ok:
            raise ToolError("%s: TLC did not pass (%s %s)\n%s" % (what, run.kind, run.violated, run.tail()))

    def validate_trace(self, module, trace_path, cfg=None, timeout=600, n_events=None, env=None):
        """Trace validation: TLC must find a behaviour of spec/<module>.tla matching every line
        of the ndjson trace.  Returns (accepted, matched_prefix_length, run)."""
        e = {"TRACE": trace_path}
        if env:
            e.update(env)
        run = self.tlc(module, cfg=cfg, workers=1, timeout=timeout, env=e, coverage=False, dfs=True,
                       xmx="4g", count=False)
        self.cov["transitions"] += run.generated
        self.cov["states"] += run.distinct
        m = re.search(r'<<"TRACE_MATCHED", (\d+), (\d+)>>', run.out)
        matched = int(m.group(1)) if m else None
        total = int(m.group(2)) if m else None
        accepted = run.ok and matched is not None and matched == total
        if not run.finished and run.kind is None:
            raise ToolError("trace validation of %s did not finish:\n%s" % (trace_path, run.tail()))
        if run.kind in ("invariant", "property") or (run.error and run.kind not in ("postcondition",)):
            if run.kind in ("invariant", "property"):
                return False, matched, run
            if not accepted and matched is None:
                raise ToolError("trace validation of %s failed to evaluate:\n%s" % (trace_path, run.tail()))
        return accepted, matched, run

    # ---------------------------------------------------------------- harness
    def harness(self, args, timeout=900, stdin=None, env=None):
        e = dict(os.environ, RUST_BACKTRACE="0")
        if env:
            e.update({k: str(v) for k, v in env.items()})
        try:
            r = subprocess.run([BIN] + [str(a) for a in args], stdout=subprocess.PIPE,
                               stderr=subprocess.PIPE, text=True, timeout=timeout, input=stdin, env=e,
                               preexec_fn=limit_memory)
        except subprocess.TimeoutExpired:
            raise ToolError("harness %s timed out after %ds" % (args, timeout))
        if r.returncode not in (0,):
            raise ToolError("harness %s exited %d:\n%s\n%s" % (args, r.returncode, r.stdout[-2000:], r.stderr[-3000:]))
        out = []
        for line in r.stdout.splitlines():
            line = line.strip()
            if line.startswith("{"):
                try:
                    out.append(json.loads(line))
                except Exception:
                    pass
        return out

    def path(self, name):
        return os.path.join(self.scratch, name)

    def write_ndjson(self, name, rows):
        p = self.path(name)
        with open(p, "w") as f:
            for r in rows:
                f.write(json.dumps(r, separators=(",", ":")) + "\n")
        return p

    # ------------------------------------------------------------- verdicts
    def violation(self, key, what, replay):
        """Reports a violation of the property by /repo.  `key` identifies the failing input /
        call site / history; a violation whose key matches a "known" entry of
        known_findings.json is printed as KNOWN-FINDING and does not fail the check."""
        for f in self.findings:
            if f.get("property") == self.pid and f.get("status") == "known" and key_matches(f.get("key"), key):
                if f["key"] not in [k for k, _ in self.known_hits]:
                    self.known_hits.append((f["key"], f.get("what", what)))
                return False
        d = os.path.join(ROOT, "replays", self.pid)
        os.makedirs(d, exist_ok=True)
        body = dict(replay)
        body.update({"property": self.pid, "key": key, "what": what, "seed": self.seed, "tier": self.tier})
        h = hashlib.sha1(json.dumps(body, sort_keys=True).encode()).hexdigest()[:12]
        p = os.path.join(d, h + ".json")
        with open(p, "w") as f:
            json.dump(body, f, indent=1, sort_keys=True)
        if len(self.violations) < 50 and (key, what, p) not in self.violations:
            self.violations.append((key, what, p))
        return True

    def sample(self, s):
        if len(self.cov["samples"]) < 8:
            self.cov["samples"].append(s)

    def selftest(self, name, rejected):
        """Binding self-test: a deliberately corrupted trace / expectation must be rejected."""
        self.cov["binding_selftest"].append({"test": name, "rejected": bool(rejected)})
        if not rejected and (self.violations or self.known_hits):
            # the implementation is already shown to deviate; a self-test that runs through it
            # proves nothing either way
            self.cov["binding_selftest"][-1]["note"] = "inconclusive: implementation already violating"
            return
        if not rejected:
            raise ToolError("binding self-test '%s' was NOT rejected: the specification no longer "
                            "constrains the implementation" % name)

    def finish(self):
        wall = time.time() - self.t0
        ev = {
            "property_id": self.pid,
            "tier": self.tier,
            "seed": self.seed,
            "level": LEVEL,
            "coverage": self.cov,
            "assumptions": self.assumptions,
            "wall_s": round(wall, 2),
            "violations": len(self.violations),
        }
        ev["coverage"]["known_findings_hit"] = [k for k, _ in self.known_hits]
        if not self.cov["samples"]:
            self.cov["samples"].append("(no sample recorded)")
        evdir = os.path.join(ROOT, "extra", "evidence") if self.extra else os.path.join(ROOT, "evidence")
        os.makedirs(evdir, exist_ok=True)
        with open(os.path.join(evdir, self.pid + ".json"), "w") as f:
            json.dump(ev, f, indent=1)
        shutil.rmtree(self.scratch, ignore_errors=True)
        for k, w in self.known_hits:
            print("KNOWN-FINDING: property=%s %s [%s]" % (self.pid, w, k))
        for key, what, p in self.violations[:12]:
            if self.extra:
                print("EXTRA-DEVIATION id=%s replay=%s  # %s: %s" % (self.pid, p, key, what))
            else:
                print("VIOLATION property=%s replay=%s  # %s: %s" % (self.pid, p, key, what))
        print("%s %s: states=%d transitions=%d traces=%d evaluations=%d nontrivial=%d violations=%d wall=%.1fs"
              % (self.pid, self.tier, self.cov["states"], self.cov["transitions"],
                 self.cov["traces_validated_against_impl"], self.cov["evaluations"],
                 self.cov["distinct_nontrivial"], len(self.violations), wall))
        return 1 if self.violations else 0


def load_findings():
    p = os.path.join(ROOT, "known_findings.json")
    if not os.path.exists(p):
        return []
    with open(p) as f:
        return json.load(f).get("findings", [])


def key_matches(pattern, key):
    """A finding's key matches exactly, or as a prefix when it ends with '*'."""
    if pattern is None:
        return False
    if pattern.endswith("*"):
        return key.startswith(pattern[:-1])
    return pattern == key
