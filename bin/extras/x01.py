"""X01 -- ess_from_chainstats and MultiChainTracker::max_rhat (StatsUnsplit.tla); beyond the listed properties."""
import vlib


def run(ctx):
    thorough = ctx.tier == "thorough"
    ctx.assumptions += [
        "no listed property speaks about ess_from_chainstats / max_rhat: StatsUnsplit.tla records what the code computes (unsplit chains, "
        "mean UNBIASED tracker variance as W, 1/n autocovariances, Geyer's sequence) and the replay shows that it does",
        "f32 implementation: ESS compared with relative tolerance 2e-3, skipped where a visited Geyer pair is within 2^-12 of zero (rule U)",
    ]
    for cfg in (["q", "q2"] if thorough else ["q"]):
        g = ctx.tlc("MC_StatsUnsplit", cfg="MC_StatsUnsplit_%s.cfg" % cfg, workers=8, timeout=3000)
        ctx.require_ok(g, "MC_StatsUnsplit_" + cfg)
        cases = g.tagged("REPLAY")
        if len(cases) < 1000:
            raise vlib.ToolError("MC_StatsUnsplit_%s: %d cases" % (cfg, len(cases)))
        res = ctx.harness(["extra", "unsplit", ctx.write_ndjson("unsplit_%s.ndjson" % cfg, cases)], timeout=1800)[-1]
        ctx.cov["evaluations"] += res["evaluations"]
        ctx.cov["traces_validated_against_impl"] += len(cases)
        ctx.cov["distinct_nontrivial"] += res["ess_checked"]
        ctx.cov["ess_checked"] = ctx.cov.get("ess_checked", 0) + res["ess_checked"]
        ctx.cov["rhat_checked"] = ctx.cov.get("rhat_checked", 0) + res["rhat_checked"]
        for m in res["bad"]:
            ctx.violation("unsplit a=%s" % m["a"], m["why"], {"direction": "replay", "spec": "MC_StatsUnsplit", "mismatch": m})
        ctx.sample({"case": cases[len(cases) // 2]})
        if cfg == "q":
            c0 = dict(next(c for c in cases if c["def"] and not c["frag"] and c["out"] > 0))
            c0["out"] = c0["out"] + c0["du"] // 4
            rs = ctx.harness(["extra", "unsplit", ctx.write_ndjson("unsplit_self.ndjson", [c0])])[-1]
            ctx.selftest("replay: expected Geyer sum of one array raised by a quarter of the denominator", len(rs["bad"]) > 0)
    ctx.cov["rule"] = ("every C x N array over {0,1,2} (2 x 5; thorough also 3 x 4): invariance theorems checked by TLC on each, expected unsplit ESS and "
                       "classical R-hat^2 replayed through ChainTracker / MultiChainTracker / ess_from_chainstats; non-trivial = arrays whose ESS was compared")
    ctx.cov["exhaustive"] = True
