#!/usr/bin/env python3
"""Regenerates /verif/MANIFEST.json from the table below (single source of truth)."""
import json
import os
import subprocess

ROOT = os.path.dirname(os.path.dirname(os.path.abspath(__file__)))

TECH = "TLA+ specification model-checked with TLC; conformance by replay of TLC-generated behaviours into the real code and TLC validation of traces recorded from it"

CLAIMED = {
    "C01": dict(
        text="TLC proves on MH.tla that the step rule never leaves a good state, rejects on NaN and keeps the state on rejection for all 8^4 IEEE-kind tables x 7 draw classes, and on MHBalance.tla that the kernel induced by the rule satisfies detailed balance for every 3-state integer-weight target and asymmetric proposal table; every enumerated case is executed as a real MHMarkovChain::step for 5 state/float type combinations and random finite-state chains are trace-validated step by step against the rule. Exhaustive over the bounded model, sampled beyond it.",
        note="Trusted: TLC, the projection in harness/src/c01.rs (table-backed Target/Proposal, crafted xoshiro state for the acceptance draw, checked at run time), monotonicity of ln. Finite ties are never asserted; IEEE-kind ties are.",
        ref="DESIGN.md 4.4, 5/C01", technique="TLC exhaustive model check of MH.tla/MHBalance.tla + spec-to-impl replay (Gen_MH) + trace validation (Trace_MH)"),
    "C05": dict(
        text="TLC proves on GibbsJoint.tla, for every joint weight table on 2 coordinates x 3 values (weights {1,2}; {1,2,3} thorough), that the sweep defined by Gibbs.tla leaves the joint invariant, and finds the stale-snapshot sweep does not (negative control); all return-value scripts of MC_Gibbs are replayed through the real GibbsMarkovChain for 4 element types and recorded conditional calls of chains (dim 1..64) and whole GibbsSampler runs are validated call by call against Gibbs.tla. current_state is a public field: Gibbs!Assign puts the chain elsewhere between sweeps (MC_Gibbs interleaves it; every second behaviour is also replayed on a chain moved to its start by assignment after a throw-away sweep).",
        note="Trusted: TLC, the recording Conditional of harness/src/c05.rs (its log is the trace), token<->bit-pattern table.",
        ref="DESIGN.md 4.5, 5/C05", technique="TLC model check of Gibbs.tla/GibbsJoint.tla + replay of TLC-enumerated scripts + trace validation (Trace_Gibbs)"),
    "C11": dict(
        text="Stats.tla defines split R-hat^2 as an exact fraction of integer arrays; TLC checks its theorems (lower bound (n-1)/n, affine / permutation invariance, growth under separation) on every array in the bounds and prints the exact expected value per array; every array is fed to the real split_rhat_mean_ess in 4 embeddings (alone, among other parameters, affine, rescaled) and must agree to f32 accuracy; long spec-generated arrays cover large n; BasicStats.tla decides the run summary (min/max/mean/std/middle order statistic, NaN tolerated).",
        note="Trusted: TLC integer arithmetic (overflow is an error), the final float comparison in harness/src/stats.rs. Either divisor of W accepted; undefined (W=0) cases only required not to fail. Each array is also evaluated from inside rayon pools of 1..3 threads, in column-major / permuted storage and in units of 2^-20 and 2^20.",
        ref="DESIGN.md 4.8, 5/C11", technique="TLC-enumerated arrays with exact rational oracle (Stats.tla, BasicStats.tla) replayed into the real diagnostics"),
    "C12": dict(
        text="Stats.tla defines ESS = m n / tau with Geyer's initial positive monotone sequence over exact integer autocovariances (no brute-force/FFT distinction); TLC checks affine, permutation and time-reversal invariance on every array in the bounds and emits the exact expected ESS; arrays are replayed into the real implementation on the brute-force path (exhaustive small arrays) and on the FFT path (spec-generated binary Markov/block chains with half lengths 100..500 around the 100-row switch and both padding cases).",
        note="Trusted: TLC, float comparison with 2^-14 relative tolerance; arrays whose Geyer cut is within 2^-12 var+ of a tie are skipped for the value (rule U). Asymptotic 'about N(1-phi)/(1+phi)' is not asserted. Each array is also evaluated from inside rayon pools of 1..3 threads and in column-major / permuted storage.",
        ref="DESIGN.md 4.8, 5/C12", technique="TLC-enumerated and TLC-generated arrays with exact rational oracle (Stats.tla) replayed into the real ESS code"),
    "C13": dict(
        text="Trackers.tla models a tracker by its exact sufficient statistics (n, sums, sums of squares, previous state); TLC enumerates every update history in the bounds and emits exact per-chain statistics and the classical R-hat^2 fraction, which ChainTracker, collect_rhat and MultiChainTracker must all reproduce; RhatGrid.tla does the same for collect_rhat over a grid of per-chain summaries with 1..3 parameters; histories of up to 5000 updates (1..8 parameters, 4 element types) are validated report by report by TLC (count, mean, unbiased variance in fixed point, EMA recurrence with weight 0.01 and range [0,1], multi-row envelope).",
        note="Trusted: TLC, fixed-point projection in harness/src/c13.rs, certified 0.99^j table (Pow99.tla). Tolerances: (2+n/256)*2^-12 on means, (4+n/32)*2^-12 on variances; first EMA report only range-checked.",
        ref="DESIGN.md 4.8, 5/C13", technique="TLC-enumerated histories with exact oracle (MC_Trackers, RhatGrid) replayed into the trackers + trace validation of long histories (Trace_Trackers)"),
    "C16": dict(
        text="Categorical.tla defines sampling as 'an index of positive probability whose closed cumulative interval contains r'; TLC checks non-emptiness and the quadrature theorem (each index is hit K p_i +- 1 times over the midpoint grid) on every weight vector of length <= 5 over 0..3 and emits the allowed index set for r = 0, 1-ulp, grid midpoints and both sides of every threshold; the real Categorical (f32/f64, 3 unnormalised scalings, vectors up to length 64 with zeros anywhere) is driven with exactly those variates through Categorical::with_rng; logp and normalisation are compared with ln(w_i/W).",
        note="Trusted: TLC, crafted xoshiro256++ state (variate checked indirectly by the strict cases), float comparison of logp. Exactly at a threshold either neighbour is accepted; a zero-probability index never.",
        ref="DESIGN.md 4.9, 5/C16", technique="TLC-enumerated weight vectors and variate classes (Categorical.tla) replayed into the real sampler with injected uniforms"),
    "C15": dict(
        text="Dist.tla states the built-in log-densities and gradients as exact affine forms / rationals on integer lattices with dyadic scalings; TLC proves on the lattice that each stated gradient is the gradient of the stated log-density (exact finite-difference stencils), symmetry of the proposal density and positivity of the quadratic form, and emits every case; each case is evaluated through every public path (Gaussian2D f32/f64, DiffableGaussian2D batched/single/gradient on both backends with batch sizes 1..64, IsotropicGaussian logp both argument orders/target form/seeded sampling, Rosenbrock2D, RosenbrockND) and compared at f32-level accuracy. PropStream.tla models the proposal's random stream as a state machine (draw / set_seed at any moment / clone; SeedResetsAtAnyTime); every history of <= 5 (thorough 7) operations is replayed on f64 and f32 objects: a seeded draw equals, bit for bit, the same draw of a fresh object seeded before first use.",
        note="Trusted: TLC, f64 evaluation of ln(2 pi), ln 2, ln det in harness/src/c15.rs. Values between lattice points are not enumerated (DESIGN section 8).",
        ref="DESIGN.md 4.9, 5/C15", technique="TLC-enumerated lattice cases with exact symbolic oracle and gradient lemmas (Dist.tla) replayed into every public evaluation path"),
    "C17": dict(
        text="Export.tla models a save call as one atomic action over a file system of tables of opaque tokens, with the documented axis order of each of the five entry points; TLC checks one-row-per-cell / every-token-once / error-leaves-nothing on all (entry point, shape incl. zero extents, path kind) and emits the expected table; the real save_* functions are called with tokens bound to adversarial values (subnormals, extremes, -0.0, NaN, infinities, integer extremes), the files are read back with the csv/arrow/parquet readers and compared cell by cell, unwritable paths must give Err without panic or leftover file. Unwritable path kinds: missing directory, a directory, and a device that opens and refuses every byte (/dev/full): an error that only surfaces at the final flush must be reported. The writable path already holds an older, longer export before every save (Export!Init, Stale): a save replaces the file.",
        note="Trusted: TLC for layout/labels/Ok-Err; the csv, arrow and parquet reader crates and bit-pattern comparison in harness/src/c17.rs for value fidelity. The array entry points are called with the same logical array in five memory layouts (row-major, column-major, permuted / reversed axes, strided view).",
        ref="DESIGN.md 4.9, 5/C17", technique="TLC-enumerated save actions (Export.tla) replayed into the real writers and read back"),
    "C18": dict(
        text="InitPos.tla models _init as its draw loop over one seeded stream; TLC checks shape, row-major stream indexing, exact consumption and the prefix property for n,d <= 3 and emits expected stream indices for a grid of sizes up to 256 x 256 and six seed classes incl. u64::MAX; the real init_with_seed / init_det / init are compared entry by entry (bit-equal to the corresponding StandardNormal draw), for purity across repeated calls and threads, seed sensitivity, and init's shape/finiteness/freshness.",
        note="Trusted: TLC, rand's SmallRng::seed_from_u64 + rand_distr::StandardNormal as the realisation of the abstract stream. 'Standard normal' is decided as stream identity, not statistically.",
        ref="DESIGN.md 4.9, 5/C18", technique="TLC model check of InitPos.tla + TLC-generated index matrices replayed into the real initialisers"),
    "C09": dict(
        text="Runner.tla models run() as its loops (generic run_chain under a worker pool, the batched HMC loop, the NUTS loop with its first-row convention) over chains abstracted to transition counters; TLC proves Exact / NoExtraStep / LeftAtLast / RowIsChain / Continuation for every interleaving of <=3 chains on 2 workers and every 2-call history in the bounds (an off-by-one store condition is the negative control); every call history is replayed on counting chains (4 element types, 1..32 chains) and on MetropolisHastings, GibbsSampler, HMC (both backends), NUTSChain and the multi-chain NUTS runner, and step events of counting chains under real rayon pools are trace-validated.",
        note="Trusted: TLC; shadow clones (MH/Gibbs) and hook events hmc_end/nuts_end (HMC/NUTS) as the definition of 'state after t transitions'; bit-equality of outputs.",
        ref="DESIGN.md 4.2, 5/C09", technique="TLC model check of Runner.tla over all interleavings + replay of TLC-generated call histories + trace validation of rayon runs (Trace_Runner)"),
    "C07": dict(
        text="Seeds.tla models generator ownership (seeded / OS / process-global generators, per-chain seed derivation modulo W, draw tokens) with two samplers running concurrently; TLC proves for every interleaving that a seeded sampler's output is the closed form of (kind, chains, seed) alone, that seeding never panics and that different seeds separate, and refutes the three pinned-tree policies (checked arithmetic, HMC on the global generator) as negative controls; Gen_Seeds enumerates scenarios (kind x chains x seed class incl. u64::MAX x pool size 1..16 x concurrent samplers x progress x repeat); a seeded sample is executed in child processes and TLC validates the result trace against a memo specification (same description => same bits, different description => different bits). Scenarios with pre = TRUE use the sampler before seeding it (unseeded run, start restored through the public fields): the closed form has no history argument.",
        note="Trusted: TLC; FNV hash of all output bits; W stands for 2^64. Scenario sample is not exhaustive (a seeded subset each run). A dedicated probe covers the recorded deadlock of NUTS::run under concurrent non-rayon autodiff threads (known finding).",
        ref="DESIGN.md 4.1, 5/C07", technique="TLC model check of Seeds.tla over all interleavings + TLC-enumerated scenarios run in child processes + trace validation (Trace_Seeds)"),
    "C08": dict(
        text="Seeds.tla!DistinctStreams (no two chains share an acceptance or proposal generator, no proposal generator seeded like an acceptance generator, seeded and unseeded, all seeds modulo W) is proved by TLC and refuted for the pinned 'clone one proposal into every chain' policy; stream fingerprints of every generator of MH (library and user-defined seedable proposal), HMC (momentum rows / uniforms of the first step) and NUTS samplers with 2..64 chains, unseeded and seeded incl. u64::MAX, plus trajectories from a common start, are validated by TLC against that invariant.",
        note="Trusted: TLC; fingerprints = first outputs of generator clones (pub fields / verif hooks); trajectories compared after 4-6 transitions.",
        ref="DESIGN.md 4.1, 5/C08", technique="TLC model check of Seeds.tla + trace validation of recorded stream fingerprints (Trace_Seeds)"),
    "C10": dict(
        text="Progress.tla models the worker/reporter protocol (one channel per chain, polling reporter, at most MaxBars bars recycled left to right, exit when all final statistics were seen, receiver crash at any point); TLC proves Termination under weak fairness and DrawsExact / ExitOnlyWhenAllFinal / CountOnce over all interleavings with more chains than bars, and refutes a non-recycling reporter; TLC-enumerated completion schedules (7 chains, 5 bars) are realised deterministically through the reporter_iter hook, sampler x element type x backend x chain-count configurations (up to 48 chains) and receiver drops at every point are executed under a watchdog, and the reporter's logged bookkeeping is trace-validated against the specification with TLC inferring the unobservable drains. Execution resources are part of the model: chains as jobs of a pool of Slots executors (WStart, PoolRespected), the reporter on a thread of its own; Termination is proved for pools of 1 and 2 executors, a reporter that is itself a pool job on a 1-executor pool is the second negative control; every small configuration is also run under RAYON_NUM_THREADS=1 and every second one under 2.",
        note="Trusted: TLC; watchdog timeouts (30-120 s against a 250 ms polling period); draws compared bit for bit with run() on a clone (NUTS: shifted by one draw); diagnostics compared with RunStats::from(draws).",
        ref="DESIGN.md 4.3, 5/C10", technique="TLC model check incl. liveness of Progress.tla + Apalache inductive invariant of the reporter bookkeeping (ProgressInd.tla) + replay of TLC-generated schedules/configurations/faults + trace validation (Trace_Progress)"),
    "C02": dict(
        text="HMC.tla models one row of the batched step action by action (momentum, gradient term at the current position, energy, L x half-kick/drift/gradient/half-kick, energy, Metropolis test ln u <= H - H', select) on a dyadic lattice where every quantity is an exact integer; TLC proves exactness of the lattice, that the code-shaped integrator (carried gradient term) is velocity Verlet, exact time reversibility and 'old row or proposal' for every configuration in the bounds incl. two consecutive steps; every behaviour is replayed through the real HMC::step with injected momenta/uniforms and must match BIT FOR BIT on the f64 backend (positions, momenta, both energies, mask), in batches, reversed batches and alone; verif_leapfrog from (x',-p') must return exactly to (x,-p); runs on Gaussian, Rosenbrock, Student-t and half-line targets (1..32 chains, dim 2..16, L 0..64, stable to overflowing step sizes) are trace-validated sub-step by sub-step against the harness's own gradients. step_size, n_leapfrog and positions are public fields: E, L and the start of a behaviour are what the fields hold when the step is taken -- every second replay runs on a sampler built with other values, moved by a throw-away transition, then re-tuned and re-positioned by assignment.",
        note="Trusted: TLC; hook events and overrides (feature verif-hooks); the harness's closed-form gradients for trace mode; tolerances 1e-12 (f64 paths) / 2e-4..5e-4 (f32 paths) with a 10-unit budget; exact finite ties are never generated.",
        ref="DESIGN.md 4.6, 5/C02", technique="TLC model check of HMC.tla on an exact dyadic lattice + bit-exact replay through HMC::step + trace validation on arbitrary targets (Trace_HMC)"),
    "C03": dict(
        text="NutsTree.tla is Algorithm 6 as coded (NUTSChain::step + build_tree) as an explicit stack machine over an abstract leapfrog trajectory indexed by integer offsets, with an oracle for slice membership, divergence and U-turns and with the exact selection distribution of the candidate propagated through every merge; TLC proves, for every oracle pattern and random choice to tree depth 2 (3 thorough): next state is 0 or a slice-admissible visited point, never from a stopped subtree, contiguous extent <= 2^j, n = 1 + |slice|, n_alpha = leaves of the last doubling, uniform selection within a subtree (a wrong merge weight is the negative control). Real transitions (Gaussians dim 1..8 with random precision, library Gaussian, Rosenbrock, funnel, divergent, NaN-region targets, forced tiny/huge step sizes up to tree depth 10, f32/f64) are validated event by event: TLC replays the stack machine with the oracle answers bound to the logged fields and requires every logged counter, extent, candidate and state to equal the machine's; every leaf is re-integrated with the harness's own leapfrog. In the other direction Replay_NutsTree.tla fixes the oracle by a script that a real target realises (first coordinate = trajectory offset, exact dyadic momenta, slice class / divergence / U-turns chosen per offset), TLC runs NutsTree's own actions on every script to depth 1 (2) and sampled scripts to depth 3 (4), and the real build_tree (verif_api wrapper, scripted GradientTarget) must return the specification's n', s', n_alpha, alpha' and one of its candidates. Record jobs include chains whose public `position` is assigned between run() calls and a Gaussian with an additive constant of -2.5e8 / +3e9 on f64.",
        note="Trusted: TLC; hook events; identification of trajectory points by bit pattern; the harness's closed-form gradients; quantised uniforms (2^-16, margin 2), U-turn dead zone 1e-4, divergence-bound margin 1.0. Whole transitions cannot be steered (the momentum is drawn inside step): they are validated impl -> spec only; build_tree is replayed spec -> impl, where which admissible candidate is drawn is not controlled (6 generator seeds per script).",
        ref="DESIGN.md 4.7, 5/C03", technique="TLC model check of NutsTree.tla over all oracle patterns + replay of TLC-generated build_tree behaviours on scripted targets into the real build_tree (Replay_NutsTree) + trace validation of real transitions against the same stack machine (Trace_NutsTree)"),
    "C04": dict(
        text="MC_DualAvg.tla checks the phase machine over several run() calls (adapt exactly while m <= n_discard, then the step size equals the averaged iterate and never changes within the run, the counter persists); Trace_DualAvg validates every transition of real chains (warm-up 0..300/2000, requested acceptance 0.52..0.985, repeated run() calls, several targets, f32/f64): phase decided by the specification, counter, shrinkage point ln(10 eps), power-of-two start value, Algorithm 4's postcondition for the start-up search (DualAvg!StartValueOk: acceptance crosses 1/2 next to eps0, undefined or zero density = acceptance 0), positivity/finiteness, coarse interval versions of the three dual-averaging recurrences from certified tables (gamma 0.05, t0 10, kappa 0.75) and fine residuals of the same recurrences; the start-up heuristic is called through its wrapper and must stop where Algorithm 4 stops.",
        note="Trusted: TLC, certified tables (bin/gen_tables.py, exact integer arithmetic), the harness's f64 re-evaluation for the fine residuals. The statistical clause (realised acceptance close to requested) is reported and asserted only as a wide envelope.",
        ref="DESIGN.md 4.7, 5/C04", technique="TLC model check of the adaptation phase machine + trace validation of real adaptation histories against DualAvg.tla with certified interval tables"),
    "C14": dict(
        text="The accept rules are analysed exhaustively over IEEE kinds: MH.tla!NeverToBadState for all 8^4 log-value tables and all draw classes (incl. u = 0), AcceptKinds.tla for the HMC Metropolis test (accepted => proposal density positive and not NaN, momentum finite, unless ln u = -inf) and the NUTS slice / divergence tests (in slice => joint finite or +inf; NaN stops the tree); recorded runs of MH (library and inf/NaN-producing proposals) on half-line, box and sqrt targets, HMC with step sizes up to 1e300 on the half-line and NUTS on NaN-region / divergent targets incl. overflowing step sizes are validated transition by transition (state stays good and finite, refused candidates leave the state bit for bit), panics and hangs are violations.",
        note="Trusted: TLC; the harness's own copies of the targets; watchdog 600 s. Zero acceptance draws excepted as stated by the property.",
        ref="DESIGN.md 5/C14", technique="TLC exhaustive case analysis over IEEE kinds (MH.tla, AcceptKinds.tla) + trace validation of runs on bounded-support targets (Trace_BadState, Trace_HMC)"),
}

PENDING_REASON = "check not built yet in this round (planned: see DESIGN.md section 5); not claimed until its TLC + conformance check exists"
NOT_APPLICABLE = {
    "C06": "statistical convergence (law of large numbers over real-valued estimators and independence of pseudo-random draws) is outside what an explicit-state TLA+ model with TLC can decide; the kernel-level facts it rests on are claimed under C01/C05 (exact stationarity on finite models), C02/C03 (step-level conformance) and C07/C08 (stream ownership) - see DESIGN.md section 8",
}


def main():
    props = [json.loads(l)["id"] for l in open(os.path.join(ROOT, "properties.jsonl"))]
    checks = []
    for pid in props:
        if pid not in CLAIMED:
            continue
        c = CLAIMED[pid]
        checks.append({
            "property_id": pid,
            "quick_cmd": "python3 bin/check %s --tier quick" % pid,
            "thorough_cmd": "python3 bin/check %s --tier thorough" % pid,
            "evidence_file": "/verif/evidence/%s.json" % pid,
            "replay_cmd_template": "python3 bin/check %s --replay {path}" % pid,
            "engine": "tlc+conform",
            "level_claimed": {"category": "model_checking", "text": c["text"], "design_ref": c["ref"]},
            "level_note": c["note"],
            "technique": c.get("technique", TECH),
        })
    na = []
    for pid in props:
        if pid in CLAIMED:
            continue
        na.append({"property_id": pid, "reason": NOT_APPLICABLE.get(pid, PENDING_REASON)})
    hooks_commits = subprocess.run(["git", "-C", "/repo", "log", "--format=%H %s"], stdout=subprocess.PIPE, text=True).stdout.splitlines()
    hook_shas = [l.split()[0] for l in hooks_commits if " verif-hooks" in l]
    m = {
        "version": 1,
        "setup_cmd": "sh bin/setup",
        "hooks": {
            "guard": "cargo feature verif-hooks",
            "enable": "the harness crate /verif/harness depends on /repo by path with features csv,arrow,parquet,verif-hooks; every check runs `cargo build --offline` in /verif/harness first, which recompiles /repo's current working tree",
            "baseline_off_cmd": "cd /repo && cargo test --workspace --no-fail-fast --offline",
            "source_commits": hook_shas,
            "add_only": True,
        },
        "engines": [
            {"name": "tlc+conform", "path": "bin/check", "serves_properties": sorted(CLAIMED),
             "kind_free_text": "python driver: TLC (tla2tools 1.8.0) on /verif/spec/*.tla for model checking, behaviour generation and trace validation; Rust harness /verif/harness (conform) replays behaviours into / records traces from the real crate"},
            {"name": "apalache", "path": "bin/check", "serves_properties": ["C10"],
             "kind_free_text": "Apalache 0.58 (apalache-mc check, called from bin/check C10 via vlib.apalache): inductive invariant of the reporter bookkeeping, spec/apalache/ProgressInd.tla"},
            {"name": "extras", "path": "bin/extra", "serves_properties": [],
             "kind_free_text": "same machinery for behaviour beyond the listed properties (StatsUnsplit.tla: ess_from_chainstats, max_rhat); deviations are EXTRA-DEVIATION lines, never violations; not registered as checks"},
        ],
        "checks": checks,
        "notes": "Exit codes: 0 held (KNOWN-FINDING lines possible), 1 VIOLATION, 2 tool error. VERIF_SEED seeds all random drivers and TLC. known_findings.json lists recorded/fixed genuine defects.",
        "not_applicable": na,
    }
    with open(os.path.join(ROOT, "MANIFEST.json"), "w") as f:
        json.dump(m, f, indent=1)
    print("MANIFEST.json: %d checks, %d not_applicable" % (len(checks), len(na)))


if __name__ == "__main__":
    main()
